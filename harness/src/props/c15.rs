//! C15 retransmission timing: not before resend_time, promptly after it (budget allowing),
//! never once an acknowledgement for a packet carrying the item has been processed.

use crate::link::ALL_RANDOM_PROFILES;
use crate::oracles::SizeMonitor;
use crate::outcome::{Ctx, Outcome, PropInfo};
use crate::rng::Rng;
use crate::rsim::{CfgGen, DtMode, Ev, Kind, Monitor, Sim};
use crate::traffic::{self, CoverageMonitor, Plan};
use renet::verif::Packet;
use serde_json::json;
use std::collections::{BTreeSet, HashMap};

pub static INFO: PropInfo = PropInfo {
    id: "C15",
    level: "exploration",
    rule: "one evaluation = one simulated lossy session (as C01) with tick lengths shorter than / equal to / 2.5x / irregular relative to resend_time (0, 10, 100, 300 ms), budgets from 1200 B/tick up, ack delays from 0 to > 3 s. The monitor decodes every packet of every get_packets_to_send call with the crate's decoder and keeps a shadow table item -> (last transmission time, acknowledged?) and packet sequence -> (items carried, sent at); acknowledgements are taken from the Ack packets the harness actually delivered to the sender. Refuted by: (a) two transmissions of one (channel, message id[, slice]) closer than resend_time; (b) an item that was sent before, is still unacknowledged by any delivered ack is due (now - last_sent >= resend_time) and absent from a call although the budget left after the whole call is >= its size (message length, or 1200 for a slice); (c) a transmission of an item after an Ack naming a packet that carried it, sent < 3 s before, was processed. One run in 20 is a SUB-MILLISECOND run: one endpoint, a small and a sliced reliable message, no acknowledgements, ticks of 16.666 / 6.944 / 33.333 / 10.001 / 0.999 ms or irregular ones with nanosecond fractions, resend times down to 20 ms and fractional ones; every transmission is timed with the exact sum of the durations handed to update: never earlier than resend_time after the item's previous transmission, always at the first call at which resend_time has elapsed. Non-trivial = at least one retransmission and one ack-after-loss occurred; distinct = distinct event-log fingerprints.",
    assumptions: &[
        "virtual time: all endpoints are advanced by the same dt at the start of a tick, so the sender's clock equals the simulator clock",
        "promptness is asserted only against the budget left after the whole call (weakest necessary condition)",
    ],
    gates: &[
        ("sub_millisecond_runs", 20),
        ("retransmissions_timed", 5000),
        ("items_acked_effective", 2000),
        ("promptness_checked", 5000),
        ("promptness_due_and_sent", 1000),
        ("due_but_budget_exhausted", 50),
        ("dt_lt_resend", 10),
        ("dt_eq_resend", 5),
        ("dt_gt_resend", 10),
        ("partially_acked_sliced", 20),
    ],
    engines_quick: &["e1"],
    engines_thorough: &["e1"],
    run,
};

pub fn run(ctx: &Ctx, out: &mut Outcome) {
    super::run_loop(ctx, out, 8000, 200_000, 15, one_run);
}

type Item = (u8, u64, Option<usize>);

#[derive(Default)]
struct ItemState {
    last_sent: Option<u64>,
    acked_effective: bool,
    acked_any: bool,
    size: u64,
    times_sent: u32,
}

#[derive(Default)]
struct DirState {
    items: HashMap<Item, ItemState>,
    pkts: HashMap<u64, (Vec<Item>, u64)>,
    bad: bool,
}

pub struct ResendOracle {
    st: HashMap<(usize, u8), DirState>,
}

impl ResendOracle {
    pub fn new() -> Self {
        ResendOracle { st: HashMap::new() }
    }
}

fn items_of(p: &Packet) -> Vec<(Item, u64)> {
    match p {
        Packet::SmallReliable { channel_id, messages, .. } => messages.iter().map(|(id, m)| ((*channel_id, *id, None), m.len() as u64)).collect(),
        Packet::ReliableSlice { channel_id, slice, .. } => vec![((*channel_id, slice.message_id, Some(slice.slice_index)), 1200)],
        _ => vec![],
    }
}

fn payload_bytes(p: &Packet) -> u64 {
    match p {
        Packet::SmallReliable { messages, .. } => messages.iter().map(|(_, m)| m.len() as u64).sum(),
        Packet::SmallUnreliable { messages, .. } => messages.iter().map(|m| m.len() as u64).sum(),
        Packet::ReliableSlice { slice, .. } | Packet::UnreliableSlice { slice, .. } => slice.payload.len() as u64,
        Packet::Ack { .. } => 0,
    }
}

impl Monitor for ResendOracle {
    fn name(&self) -> &'static str {
        "resend"
    }
    fn on(&mut self, ev: &Ev, sim: &Sim, ctx: &Ctx, out: &mut Outcome) {
        match ev {
            Ev::SendCall { conn, dir, now_ms, decoded, .. } => {
                let Some(sender) = sim.sender(*conn, *dir) else { return };
                let d = self.st.entry((*conn, *dir)).or_default();
                if d.bad {
                    return;
                }
                let now = *now_ms;
                let mut sent_now: BTreeSet<Item> = BTreeSet::new();
                let mut used = 0u64;
                for p in decoded.iter().flatten() {
                    used += payload_bytes(p);
                    let its = items_of(p);
                    if its.is_empty() {
                        continue;
                    }
                    let resend = sim.cfg.chan(*dir, its[0].0 .0).map_or(0, |c| c.resend_ms);
                    let mut carried = Vec::new();
                    for (it, size) in its {
                        carried.push(it);
                        sent_now.insert(it);
                        let s = d.items.entry(it).or_default();
                        s.size = size;
                        if s.acked_effective {
                            d.bad = true;
                            let r = sim.replay_value(&ctx.prop, &ctx.engine, "never transmitted again once acknowledged", json!({"conn": conn, "dir": dir, "item": format!("{:?}", it), "now_ms": now}));
                            out.violation(
                                ctx,
                                "C15/transmitted-after-ack",
                                "never transmitted again after an acknowledgement for a packet carrying it (sent < 3 s earlier) has been processed",
                                format!("conn {} dir {}: item {:?} transmitted at {} ms although an effective ack was processed before", conn, dir, it, now),
                                r,
                            );
                            return;
                        }
                        if let Some(last) = s.last_sent {
                            out.count("retransmissions_timed");
                            let gap = now - last;
                            if gap < resend {
                                d.bad = true;
                                let r = sim.replay_value(&ctx.prop, &ctx.engine, "not before resend_time", json!({"conn": conn, "dir": dir, "item": format!("{:?}", it), "gap_ms": gap, "resend_ms": resend}));
                                out.violation(
                                    ctx,
                                    "C15/retransmitted-too-early",
                                    "not transmitted again earlier than resend_time after its previous transmission",
                                    format!("conn {} dir {}: item {:?} retransmitted after {} ms, resend_time is {} ms", conn, dir, it, gap, resend),
                                    r,
                                );
                                return;
                            }
                            if gap == resend {
                                out.count("retransmitted_exactly_at_resend_time");
                            }
                        }
                        s.last_sent = Some(now);
                        s.times_sent += 1;
                    }
                    d.pkts.insert(p.sequence(), (carried, now));
                }
                if sender.is_disconnected() {
                    return;
                }
                // promptness: every due, unacknowledged, previously sent item is in this call, unless
                // the budget left after the whole call is smaller than its size
                let remaining = sim.cfg.bytes_per_tick.saturating_sub(used);
                let mut unacked_cache: HashMap<u8, BTreeSet<u64>> = HashMap::new();
                let mut viol: Option<(Item, u64, u64, u64)> = None;
                for (it, s) in d.items.iter() {
                    if s.acked_any || s.acked_effective || sent_now.contains(it) {
                        continue;
                    }
                    let Some(last) = s.last_sent else { continue };
                    let resend = sim.cfg.chan(*dir, it.0).map_or(0, |c| c.resend_ms);
                    if now - last < resend {
                        continue;
                    }
                    // "unacknowledged" is decided by the shadow table alone (no delivered Ack ever named a
                    // packet carrying the item). If the sender has nevertheless dropped the message (hook),
                    // it will never retransmit it: that is exactly what this clause forbids.
                    let ua = unacked_cache.entry(it.0).or_insert_with(|| sender.verif_unacked(it.0).unwrap_or_default().into_iter().collect());
                    if !ua.contains(&it.1) {
                        out.count("due_item_of_message_the_sender_dropped");
                    }
                    out.count("promptness_checked");
                    if remaining >= s.size {
                        viol = Some((*it, now - last, resend, remaining));
                        break;
                    } else {
                        out.count("due_but_budget_exhausted");
                    }
                }
                out.add("promptness_due_and_sent", sent_now.iter().filter(|it| d.items.get(*it).map_or(false, |s| s.times_sent > 1)).count() as u64);
                if let Some((it, gap, resend, remaining)) = viol {
                    d.bad = true;
                    let r = sim.replay_value(
                        &ctx.prop,
                        &ctx.engine,
                        "transmitted again by the first tick at which resend_time has elapsed",
                        json!({"conn": conn, "dir": dir, "item": format!("{:?}", it), "since_last_ms": gap, "resend_ms": resend, "budget_left": remaining}),
                    );
                    out.violation(
                        ctx,
                        "C15/due-item-not-retransmitted",
                        "transmitted again by the first tick at which resend_time has elapsed while unacknowledged and budget allows",
                        format!(
                            "conn {} dir {}: item {:?} last sent {} ms ago (resend_time {} ms), unacknowledged, absent from the call although {} budget bytes were left",
                            conn, dir, it, gap, resend, remaining
                        ),
                        r,
                    );
                }
            }
            Ev::Arrive {
                conn,
                dir,
                decoded,
                receiver_disconnected,
                ..
            } => {
                if *receiver_disconnected {
                    return;
                }
                // an Ack travelling in direction `dir` acknowledges packets of direction 1-dir
                let Some(Packet::Ack { ack_ranges, .. }) = decoded else { return };
                let now = sim.now_ms;
                let Some(d) = self.st.get_mut(&(*conn, 1 - *dir)) else { return };
                let mut seqs: Vec<u64> = Vec::new();
                for r in ack_ranges.iter() {
                    if r.end.saturating_sub(r.start) <= 4096 {
                        for s in r.clone() {
                            if d.pkts.contains_key(&s) {
                                seqs.push(s);
                            }
                        }
                    } else {
                        for s in d.pkts.keys() {
                            if r.contains(s) {
                                seqs.push(*s);
                            }
                        }
                    }
                }
                for s in seqs {
                    let Some((items, sent_at)) = d.pkts.get(&s).cloned() else { continue };
                    let effective = now - sent_at < 3000;
                    for it in items {
                        if let Some(st) = d.items.get_mut(&it) {
                            st.acked_any = true;
                            if effective && !st.acked_effective {
                                st.acked_effective = true;
                                out.count("items_acked_effective");
                                if it.2.is_some() {
                                    out.count("slice_acked");
                                }
                            }
                            if !effective {
                                out.count("stale_ack_seen");
                            }
                        }
                    }
                    if effective {
                        d.pkts.remove(&s);
                    }
                }
            }
            _ => {}
        }
    }

    fn finish(&mut self, _sim: &Sim, _ctx: &Ctx, out: &mut Outcome) {
        // partially acknowledged sliced messages seen?
        for d in self.st.values() {
            let mut per_msg: HashMap<(u8, u64), (u32, u32)> = HashMap::new();
            for (it, s) in d.items.iter() {
                if it.2.is_some() {
                    let e = per_msg.entry((it.0, it.1)).or_insert((0, 0));
                    e.0 += 1;
                    if s.acked_effective && s.times_sent >= 1 {
                        e.1 += 1;
                    }
                }
            }
            for (_, (n, a)) in per_msg {
                if a > 0 && a < n {
                    out.count("partially_acked_sliced_at_end");
                }
            }
            for (it, s) in d.items.iter() {
                if it.2.is_some() && s.times_sent > 1 {
                    out.count("partially_acked_sliced");
                    break;
                }
            }
        }
    }
}

/// Frame times are not whole milliseconds (60 Hz is 16.666 ms; irregular frames have any length): one endpoint, one
/// small and one sliced reliable message, no acknowledgements, ticks of a fractional length. Every transmission of an
/// item is timed with the exact sum of the durations handed to `update`: a retransmission comes no earlier than
/// resend_time after the previous transmission of that item, and at the first call at which resend_time has elapsed.
fn sub_millisecond_run(ctx: &Ctx, out: &mut Outcome, run_seed: u64, r: &mut Rng) {
    use bytes::Bytes;
    use renet::verif::Packet;
    use renet::{ChannelConfig, ConnectionConfig, RenetClient, SendType};
    use std::collections::HashMap;
    use std::time::Duration;
    let resend = Duration::from_micros(*r.pick(&[300_000u64, 20_000, 100_000, 33_333, 50_500]));
    let regular = r.chance(1, 2);
    let base_us = *r.pick(&[16_666u64, 6_944, 33_333, 10_001, 999]);
    let ordered = r.chance(1, 2);
    let st = if ordered { SendType::ReliableOrdered { resend_time: resend } } else { SendType::ReliableUnordered { resend_time: resend } };
    let chans = vec![ChannelConfig { channel_id: 1, max_memory_usage_bytes: 1 << 20, send_type: st }];
    let mut c = RenetClient::new(ConnectionConfig { available_bytes_per_tick: 1 << 20, server_channels_config: chans.clone(), client_channels_config: chans });
    c.set_connected();
    c.send_message(1, Bytes::from(vec![1u8; r.urange(1, 300)]));
    c.send_message(1, Bytes::from(vec![2u8; 1200 * r.urange(1, 3) + r.urange(1, 1199)]));
    let mut now = Duration::ZERO;
    // item -> time of its last transmission; item = (message id, slice index or usize::MAX for a small message)
    let mut last: HashMap<(u64, usize), Duration> = HashMap::new();
    let span = resend * 4 + Duration::from_millis(50);
    let mut checked = 0u64;
    while now < span {
        let mut sent_now: Vec<(u64, usize)> = Vec::new();
        for p in c.get_packets_to_send() {
            match crate::rsim::decode(&p) {
                Some(Packet::SmallReliable { messages, .. }) => sent_now.extend(messages.iter().map(|(id, _)| (*id, usize::MAX))),
                Some(Packet::ReliableSlice { slice, .. }) => sent_now.push((slice.message_id, slice.slice_index)),
                _ => {}
            }
        }
        for item in sent_now.iter() {
            if let Some(prev) = last.get(item) {
                checked += 1;
                if now - *prev < resend {
                    out.violation(
                        ctx,
                        "C15/retransmitted-too-early/sub-millisecond",
                        "a retransmission comes no earlier than resend_time after the previous transmission",
                        format!("item {:?} transmitted again after {:?}, earlier than resend_time {:?} (tick base {} us, {})", item, now - *prev, resend, base_us, if regular { "regular" } else { "irregular" }),
                        json!({"property": "C15", "engine": ctx.engine, "run_seed": format!("{:#x}", run_seed), "mode": "sub-millisecond"}),
                    );
                    return;
                }
            }
            last.insert(*item, now);
        }
        // promptness: whatever was due at this call (resend_time elapsed since its last transmission) went out
        for (item, prev) in last.iter() {
            if now - *prev >= resend && !sent_now.contains(item) {
                out.violation(
                    ctx,
                    "C15/due-item-not-retransmitted/sub-millisecond",
                    "an unacknowledged item is retransmitted at the first flush at which resend_time has elapsed",
                    format!("item {:?} was last transmitted {:?} ago (resend_time {:?}) and was not in this call's packets", item, now - *prev, resend),
                    json!({"property": "C15", "engine": ctx.engine, "run_seed": format!("{:#x}", run_seed), "mode": "sub-millisecond"}),
                );
                return;
            }
        }
        let dt = Duration::from_micros(if regular { base_us } else { r.range(1, 2 * base_us) }) + Duration::from_nanos(if regular { 0 } else { r.below(1000) });
        c.update(dt);
        now += dt;
    }
    out.count("sub_millisecond_runs");
    out.add("sub_millisecond_retransmissions_timed", checked);
    out.eval(crate::rng::mix(&[0x5B15, run_seed, base_us]), checked > 0);
}

pub fn one_run(ctx: &Ctx, out: &mut Outcome, run_seed: u64) {
    let mut r = Rng::new(run_seed);
    if ctx.replay_mode.as_deref() == Some("sub-millisecond") || (ctx.replay_mode.is_none() && (run_seed >> 6) % 20 == 0) {
        let mut r2 = Rng::new(run_seed ^ 0x5B15);
        return sub_millisecond_run(ctx, out, run_seed, &mut r2);
    }
    let gen = CfgGen {
        max_clients: 2,
        small_budgets: r.chance(1, 3),
        min_bytes_per_tick: 1200,
        profiles: ALL_RANDOM_PROFILES.to_vec(),
    };
    let mut cfg = gen.gen(&mut r);
    // tick length relative to the resend time
    let resend = cfg.up.iter().map(|c| c.resend_ms).max().unwrap_or(0);
    cfg.dt = match r.below(6) {
        0 => DtMode::Fixed((resend / 3).max(1)),
        1 => DtMode::Fixed(resend.max(1)),
        2 => DtMode::Fixed((resend * 5 / 2).max(2)),
        3 => DtMode::Irregular(1, (resend * 2).max(5)),
        4 => DtMode::Fixed(*r.pick(&[1u64, 16, 100])),
        _ => DtMode::Fixed(400),
    };
    match cfg.dt {
        DtMode::Fixed(d) if d < resend => out.count("dt_lt_resend"),
        DtMode::Fixed(d) if d == resend => out.count("dt_eq_resend"),
        DtMode::Fixed(_) => out.count("dt_gt_resend"),
        DtMode::Irregular(..) => out.count("dt_irregular"),
    }
    let plan = Plan {
        fault_ticks: r.range(10, if ctx.thorough() { 200 } else { 80 }),
        rate_x100: *r.pick(&[50u64, 100, 250]),
        max_msgs: r.range(20, 300),
        kinds: vec![Kind::ReliableOrdered, Kind::ReliableUnordered, Kind::Unreliable],
        allow_large: r.chance(1, 8),
        tail_ticks: r.range(0, 20),
        liveness: false,
        flood: false,
        max_len: 60_000,
        overload: false,
    };
    let mut mons: Vec<Box<dyn Monitor>> = vec![Box::new(ResendOracle::new()), Box::new(CoverageMonitor::new()), Box::new(SizeMonitor { prop: "C13" })];
    let before = (out.get("retransmissions_timed"), out.get("items_acked_effective"));
    let (s, sim) = traffic::run(ctx, out, cfg, &plan, run_seed, &mut mons);
    let nontrivial = out.get("retransmissions_timed") > before.0 && out.get("items_acked_effective") > before.1 && s.dropped > 0;
    out.eval(s.fingerprint, nontrivial);
    if nontrivial {
        out.sample(traffic::sample_value(&sim, &s));
    }
}
