//! C01 ReliableOrdered: prefix at every moment + bounded delivery after the network heals.

use crate::link::ALL_RANDOM_PROFILES;
use crate::oracles::{OrderedOracle, SizeMonitor};
use crate::outcome::{Ctx, Outcome, PropInfo};
use crate::rng::Rng;
use crate::rsim::{CfgGen, DrainMode, Kind, Monitor};
use crate::traffic::{self, CoverageMonitor, Plan};

pub static INFO: PropInfo = PropInfo {
    id: "C01",
    level: "exploration",
    rule: "one evaluation = one simulated session (1-2 connections, both directions, seeded fault schedule per datagram: drop / duplicate 2-4x / delay k ticks / reorder / blackout / scripted lose-first and hold-reverse, seeded tick length, resend time, budgets, drain placement and per-tick phase interleaving); the oracle compares every obtained message of every ReliableOrdered channel with the submission at the same position and asserts full delivery at a computed deadline after the links heal. Non-trivial = the link dropped, duplicated or reordered at least one datagram AND at least one retransmission happened AND every submitted message was obtained; distinct = distinct event-log fingerprints (submissions, datagram sizes, copies, arrivals, receives). One run in 8 is an OVERLOAD run: 8-16 KB budgets, an application that drains every 3rd-9th tick or at random, submissions limited by the sender's can_send_message only; the receive side may run out of room and disconnect loudly (which excuses delivery), but a connection that stays up must still deliver everything in order.",
    assumptions: &[
        "bounded liveness only: deadline = 3*(ceil(resend/dt)+2) + 4*ceil(backlog/(budget-1199)) + 20 ticks after faults stop",
        "liveness runs use available_bytes_per_tick >= 2500 (a budget below one slice can never send a sliced message)",
        "submissions respect can_send_message and the receive budget window (DESIGN C09) so that a memory disconnect is never legitimate",
    ],
    gates: &[
        ("ordered_recv", 200),
        ("retransmissions", 20),
        ("recv_burst_gt1", 5),
        ("liveness_checked", 20),
        ("wire_reliable_slices", 20),
        ("runs_full_delivery_under_faults", 10),
    ],
    engines_quick: &["e1"],
    engines_thorough: &["e1"],
    run,
};

pub fn run(ctx: &Ctx, out: &mut Outcome) {
    super::run_loop(ctx, out, 4000, 400_000, 1, one_run);
}

pub fn one_run(ctx: &Ctx, out: &mut Outcome, run_seed: u64) {
    let mut r = Rng::new(run_seed);
    let gen = CfgGen {
        max_clients: 2,
        small_budgets: r.chance(1, 2),
        min_bytes_per_tick: 2500,
        profiles: ALL_RANDOM_PROFILES.to_vec(),
    };
    let mut cfg = gen.gen(&mut r);
    let flood = r.chance(1, 10);
    if flood {
        flood_cfg(&mut cfg, &mut r);
        out.count("flood_runs");
    }
    // overload (own random stream): tight budgets, a lazily draining application and submissions limited by the
    // sender's can_send_message only. The receiver may run out of room - a loud disconnect, which excuses delivery
    // ("and neither side has been disconnected") - but a connection that stays up still owes every message.
    let mut orng = Rng::new(run_seed ^ 0x0E7_10AD);
    let overload = !flood && orng.chance(1, 8);
    if overload {
        let mem = *orng.pick(&[8 * 1024usize, 12 * 1024, 16 * 1024]);
        for c in cfg.up.iter_mut().chain(cfg.down.iter_mut()) {
            c.max_mem = mem;
        }
        cfg.drain = if orng.chance(1, 2) { DrainMode::EveryN(orng.range(3, 9)) } else { DrainMode::Random };
        out.count("overload_runs");
    }
    let kinds = match r.below(3) {
        0 => vec![Kind::ReliableOrdered],
        1 => vec![Kind::ReliableOrdered, Kind::ReliableUnordered],
        _ => vec![Kind::ReliableOrdered, Kind::ReliableUnordered, Kind::Unreliable],
    };
    let plan = Plan {
        fault_ticks: if flood { r.range(15, 50) } else { r.range(5, if ctx.thorough() { 200 } else { 80 }) },
        rate_x100: *r.pick(&[30u64, 100, 250, 600]),
        max_msgs: if flood { r.range(2500, 12_000) } else { r.range(20, 400) },
        kinds,
        allow_large: r.chance(1, 6),
        tail_ticks: r.range(0, 30),
        liveness: true,
        flood,
        max_len: 400_000,
        overload,
    };
    let mut mons: Vec<Box<dyn Monitor>> = vec![
        Box::new(OrderedOracle::new("C01", true)),
        Box::new(CoverageMonitor::new()),
        Box::new(SizeMonitor { prop: "C13" }),
    ];
    let profile_names: Vec<String> = cfg.link_up.iter().chain(cfg.link_down.iter()).map(|l| format!("profile.{:?}", l.profile)).collect();
    let (s, sim) = traffic::run(ctx, out, cfg, &plan, run_seed, &mut mons);
    for p in profile_names {
        out.count(&p);
    }
    if overload && s.any_disconnected {
        out.count("overload_runs_ending_in_a_loud_disconnect");
    } else if overload {
        out.count("overload_runs_staying_connected");
    }
    let faults = s.dropped + s.duplicated + s.reordered > 0;
    let nontrivial = faults && s.retransmissions > 0 && s.all_obtained && !s.any_disconnected;
    if nontrivial {
        out.count("runs_full_delivery_under_faults");
    }
    if s.all_obtained {
        out.count("runs_all_obtained");
    }
    out.eval(s.fingerprint, nontrivial);
    if out.samples.len() < out.max_samples && nontrivial {
        out.sample(traffic::sample_value(&sim, &s));
    }
}

/// Flood mode: one connection, large budgets, lazy drains, so that thousands of message ids are in
/// flight or buffered at once.
pub fn flood_cfg(cfg: &mut crate::rsim::SimCfg, r: &mut Rng) {
    cfg.n_clients = 1;
    for c in cfg.up.iter_mut().chain(cfg.down.iter_mut()) {
        c.max_mem = 5 * 1024 * 1024;
    }
    cfg.bytes_per_tick = *r.pick(&[60_000u64, 1_000_000]);
    cfg.drain = match r.below(3) {
        0 => crate::rsim::DrainMode::EveryN(r.range(8, 40)),
        1 => crate::rsim::DrainMode::Random,
        _ => crate::rsim::DrainMode::EveryTick,
    };
    cfg.link_up.truncate(1);
    cfg.link_down.truncate(1);
}
