//! renet session simulator: one RenetServer, n RenetClients, simulated links, virtual time,
//! event dispatch to monitors (DESIGN 2.4-2.6, section 3 "pair / star driver").

use crate::link::{Link, LinkCfg, Profile};
use crate::outcome::{Ctx, Outcome};
use crate::rng::{Fnv, Rng};
use bytes::Bytes;
use renet::verif::Packet;
use renet::{ChannelConfig, ConnectionConfig, DisconnectReason, RenetClient, RenetServer, SendType};
use serde_json::{json, Value};
use std::time::Duration;

pub const UP: u8 = 0; // client -> server
pub const DOWN: u8 = 1; // server -> client

#[derive(Clone, Copy, Debug, PartialEq, Eq)]
pub enum Kind {
    Unreliable,
    ReliableOrdered,
    ReliableUnordered,
}

impl Kind {
    pub fn reliable(&self) -> bool {
        !matches!(self, Kind::Unreliable)
    }
    pub fn short(&self) -> &'static str {
        match self {
            Kind::Unreliable => "U",
            Kind::ReliableOrdered => "RO",
            Kind::ReliableUnordered => "RU",
        }
    }
}

#[derive(Clone, Debug)]
pub struct ChanSpec {
    pub id: u8,
    pub kind: Kind,
    pub resend_ms: u64,
    pub max_mem: usize,
}

impl ChanSpec {
    pub fn to_config(&self) -> ChannelConfig {
        let resend_time = Duration::from_millis(self.resend_ms);
        ChannelConfig {
            channel_id: self.id,
            max_memory_usage_bytes: self.max_mem,
            send_type: match self.kind {
                Kind::Unreliable => SendType::Unreliable,
                Kind::ReliableOrdered => SendType::ReliableOrdered { resend_time },
                Kind::ReliableUnordered => SendType::ReliableUnordered { resend_time },
            },
        }
    }
}

#[derive(Clone, Copy, Debug, PartialEq, Eq)]
pub enum Side {
    Client,
    Server,
}

#[derive(Clone, Copy, Debug, PartialEq, Eq)]
pub enum DrainMode {
    EveryTick,
    AfterEveryArrival,
    EveryN(u64),
    Random,
    Never,
}

#[derive(Clone, Copy, Debug, PartialEq, Eq)]
pub enum DtMode {
    Fixed(u64),
    Irregular(u64, u64),
}

#[derive(Clone, Debug)]
pub struct SimCfg {
    pub n_clients: usize,
    pub up: Vec<ChanSpec>,
    pub down: Vec<ChanSpec>,
    pub bytes_per_tick: u64,
    pub dt: DtMode,
    pub drain: DrainMode,
    pub link_up: Vec<LinkCfg>,
    pub link_down: Vec<LinkCfg>,
    /// shuffle the per-tick phase order of each endpoint
    pub shuffle_phases: bool,
    /// percentage of (endpoint, tick) pairs in which the application does not flush (no get_packets_to_send): the next
    /// flush then follows two or more update() calls
    pub skip_send_pct: u64,
    /// both endpoints are built with `ConnectionConfig::default()`; `up`/`down` then hold what the library documents
    /// for it: the channel `DefaultChannel::X` (its id is `u8::from(DefaultChannel::X)`) is of kind X
    pub library_default: bool,
}

impl SimCfg {
    pub fn chans(&self, dir: u8) -> &Vec<ChanSpec> {
        if dir == UP {
            &self.up
        } else {
            &self.down
        }
    }
    pub fn chan(&self, dir: u8, ch: u8) -> Option<&ChanSpec> {
        self.chans(dir).iter().find(|c| c.id == ch)
    }
    pub fn connection_config(&self) -> ConnectionConfig {
        if self.library_default {
            return ConnectionConfig::default();
        }
        ConnectionConfig {
            available_bytes_per_tick: self.bytes_per_tick,
            server_channels_config: self.down.iter().map(|c| c.to_config()).collect(),
            client_channels_config: self.up.iter().map(|c| c.to_config()).collect(),
        }
    }
    pub fn describe(&self) -> Value {
        let ch = |v: &Vec<ChanSpec>| {
            v.iter()
                .map(|c| format!("{}:{}:resend{}ms:mem{}", c.id, c.kind.short(), c.resend_ms, c.max_mem))
                .collect::<Vec<_>>()
        };
        json!({
            "clients": self.n_clients,
            "up": ch(&self.up), "down": ch(&self.down),
            "bytes_per_tick": self.bytes_per_tick,
            "dt": format!("{:?}", self.dt), "drain": format!("{:?}", self.drain),
            "link_up": self.link_up.iter().map(|l| format!("{:?}/loss{}/dup{}/delay{}", l.profile, l.loss_pct, l.dup_pct, l.max_delay)).collect::<Vec<_>>(),
            "link_down": self.link_down.iter().map(|l| format!("{:?}/loss{}/dup{}/delay{}", l.profile, l.loss_pct, l.dup_pct, l.max_delay)).collect::<Vec<_>>(),
            "shuffle_phases": self.shuffle_phases,
            "skip_send_pct": self.skip_send_pct,
            "library_default_config": self.library_default,
        })
    }
}

/// Events at the API / wire boundary.
pub enum Ev<'a> {
    /// application handed a message to the sending endpoint (sender was not disconnected);
    /// `accepted` = `can_send_message` held just before the call (otherwise a reliable channel
    /// errors and an unreliable channel drops the message, both by design)
    Submit {
        conn: usize,
        dir: u8,
        ch: u8,
        bytes: &'a [u8],
        accepted: bool,
    },
    /// the driver drained every channel and declares the bounded-delivery deadline reached
    Deadline {
        tick: u64,
    },
    Update {
        conn: usize,
        side: Side,
        dt_ms: u64,
    },
    /// one get_packets_to_send call of the sender of direction `dir`
    SendCall {
        conn: usize,
        dir: u8,
        now_ms: u64,
        pkts: &'a [Vec<u8>],
        decoded: &'a [Option<Packet>],
        uids: &'a [u64],
        copies: &'a [u32],
    },
    /// a datagram is about to be given to the receiver of direction `dir`
    Arrive {
        conn: usize,
        dir: u8,
        uid: u64,
        copy: u32,
        bytes: &'a [u8],
        decoded: Option<&'a Packet>,
        receiver_disconnected: bool,
    },
    /// process_packet returned
    Arrived {
        conn: usize,
        dir: u8,
        uid: u64,
    },
    Recv {
        conn: usize,
        dir: u8,
        ch: u8,
        bytes: &'a [u8],
    },
    /// the application drained channel `ch` until it returned None
    DrainEnd {
        conn: usize,
        dir: u8,
        ch: u8,
    },
    Healed {
        tick: u64,
    },
    /// everything obtained and acknowledged, links empty, >= 3 s of virtual time passed since
    /// the last datagram, application drained
    Quiescent {
        tick: u64,
    },
    TickEnd {
        tick: u64,
    },
}

pub trait Monitor {
    fn on(&mut self, ev: &Ev, sim: &Sim, ctx: &Ctx, out: &mut Outcome);
    /// called once at the end of the run
    fn finish(&mut self, _sim: &Sim, _ctx: &Ctx, _out: &mut Outcome) {}
    fn name(&self) -> &'static str;
}

pub struct Sim {
    pub cfg: SimCfg,
    pub server: RenetServer,
    pub clients: Vec<RenetClient>,
    pub ids: Vec<u64>,
    pub links: [Vec<Link>; 2],
    pub tick: u64,
    pub now_ms: u64,
    pub rng: Rng,
    pub fp: Fnv,
    pub log_tail: Vec<String>,
    pub log_head: Vec<String>,
    pub log_on: bool,
    pub next_idx: Vec<[Vec<u64>; 2]>,
    /// slice-rounded bytes submitted on a reliable channel and not yet obtained by the receiver app
    pub outstanding: Vec<[Vec<usize>; 2]>,
    /// number of reliable messages submitted and not yet obtained (a 0-byte message has no bytes)
    pub outstanding_n: Vec<[Vec<usize>; 2]>,
    pub healed: bool,
    pub run_seed: u64,
    pub stats_retx: u64,
    pub max_pkt_len: usize,
}

pub fn decode(bytes: &[u8]) -> Option<Packet> {
    let mut o = octets::Octets::with_slice(bytes);
    Packet::from_bytes(&mut o).ok()
}

impl Sim {
    pub fn new(cfg: SimCfg, run_seed: u64) -> Self {
        let mut rng = Rng::new(run_seed ^ 0x51D);
        let mut server = RenetServer::new(cfg.connection_config());
        let mut clients = Vec::new();
        let mut ids = Vec::new();
        let mut links_up = Vec::new();
        let mut links_down = Vec::new();
        let mut next_idx = Vec::new();
        let mut outstanding = Vec::new();
        let mut outstanding_n = Vec::new();
        // client ids: any u64 is a legal id; in a quarter of the executions some clients get boundary values
        // (own random stream, the rest of the execution does not depend on it)
        let mut idrng = Rng::new(run_seed ^ 0x1D_B0DA_7135);
        let edge_ids = idrng.chance(1, 4);
        const EDGE_IDS: [u64; 7] = [0, 1, u64::MAX, u64::MAX - 1, 1 << 63, (1 << 63) - 1, 1 << 32];
        for k in 0..cfg.n_clients {
            let mut id = 1000 + k as u64 * 7 + rng.below(5);
            if edge_ids && idrng.chance(1, 2) {
                let e = *idrng.pick(&EDGE_IDS);
                if !ids.contains(&e) {
                    id = e;
                }
            }
            server.add_connection(id);
            let mut c = RenetClient::new(cfg.connection_config());
            c.set_connected();
            clients.push(c);
            ids.push(id);
            links_up.push(Link::new(cfg.link_up[k % cfg.link_up.len()].clone()));
            links_down.push(Link::new(cfg.link_down[k % cfg.link_down.len()].clone()));
            next_idx.push([vec![0u64; 256], vec![0u64; 256]]);
            outstanding.push([vec![0usize; 256], vec![0usize; 256]]);
            outstanding_n.push([vec![0usize; 256], vec![0usize; 256]]);
        }
        while server.get_event().is_some() {}
        // "counters after a long session": in a third of the executions every endpoint starts with its packet sequence
        // and the sliced-message id of its unreliable channels just below a width boundary of their encodings
        // (reliable message ids are not seeded: the receiver expects them from 0). Own random stream, so that the
        // rest of the execution is the same with and without it.
        let mut srng = Rng::new(run_seed ^ 0x5EED_C0DE_0000_0001);
        if srng.chance(1, 3) {
            // (the packet format ends at 2^62 - 1: a run may send tens of thousands of packets, so the highest start is 2^61)
            const EDGES: [u64; 9] = [1 << 6, 1 << 8, 1 << 14, 1 << 16, 1 << 24, 1 << 30, 1 << 32, 1 << 48, 1 << 61];
            for k in 0..clients.len() {
                for end in 0..2 {
                    let seq = *srng.pick(&EDGES) - srng.range(1, 40);
                    let sid = *srng.pick(&EDGES) - srng.range(1, 12);
                    let c: Option<&mut RenetClient> = if end == 0 { clients.get_mut(k) } else { server.verif_connection_mut(ids[k]) };
                    if let Some(c) = c {
                        c.verif_seed_counters(seq, 0);
                        c.verif_seed_unreliable_sliced_id(sid);
                    }
                }
            }
        }
        // the connection clocks of an old session: in a sixth of the executions every endpoint has already been updated for
        // a long time when the traffic starts (one update call of that length; 2^31 / 2^32 ms are 25 / 50 days), so
        // that the run crosses the point where a narrower time representation would wrap. Own random stream.
        let mut crng = Rng::new(run_seed ^ 0xC10C_0000_0000_0001);
        if crng.chance(1, 6) {
            const CLOCK_EDGES_MS: [u64; 5] = [1 << 31, 1 << 32, 1 << 33, (1u64 << 32) * 1000, 1 << 42];
            let age = Duration::from_millis(*crng.pick(&CLOCK_EDGES_MS) - crng.range(1, 4000));
            server.update(age);
            for c in clients.iter_mut() {
                c.update(age);
            }
        }
        Sim {
            cfg,
            server,
            clients,
            ids,
            links: [links_up, links_down],
            tick: 0,
            now_ms: 0,
            rng,
            fp: Fnv::new(),
            log_tail: Vec::new(),
            log_head: Vec::new(),
            log_on: true,
            next_idx,
            outstanding,
            outstanding_n,
            healed: false,
            run_seed,
            stats_retx: 0,
            max_pkt_len: 0,
        }
    }

    pub fn log(&mut self, s: String) {
        if !self.log_on {
            return;
        }
        if self.log_head.len() < 16 {
            self.log_head.push(s.clone());
        }
        if self.log_tail.len() >= 400 {
            self.log_tail.drain(0..200);
        }
        self.log_tail.push(s);
    }

    /// The endpoint that *sends* in direction `dir` for connection `conn`.
    pub fn sender(&self, conn: usize, dir: u8) -> Option<&RenetClient> {
        if dir == UP {
            self.clients.get(conn)
        } else {
            self.server.verif_connection(self.ids[conn])
        }
    }

    pub fn receiver(&self, conn: usize, dir: u8) -> Option<&RenetClient> {
        self.sender(conn, 1 - dir)
    }

    pub fn endpoint(&self, conn: usize, side: Side) -> Option<&RenetClient> {
        match side {
            Side::Client => self.clients.get(conn),
            Side::Server => self.server.verif_connection(self.ids[conn]),
        }
    }

    pub fn disconnected(&self, conn: usize, side: Side) -> bool {
        self.endpoint(conn, side).map_or(true, |e| e.is_disconnected())
    }

    pub fn reason(&self, conn: usize, side: Side) -> Option<DisconnectReason> {
        self.endpoint(conn, side).and_then(|e| e.disconnect_reason())
    }

    pub fn any_disconnected(&self, conn: usize) -> bool {
        self.disconnected(conn, Side::Client) || self.disconnected(conn, Side::Server)
    }

    pub fn can_send(&self, conn: usize, dir: u8, ch: u8, len: usize) -> bool {
        match self.sender(conn, dir) {
            Some(e) => !e.is_disconnected() && e.can_send_message(ch, len),
            None => false,
        }
    }

    pub fn available_memory(&self, conn: usize, dir: u8, ch: u8) -> usize {
        self.sender(conn, dir).map_or(0, |e| e.channel_available_memory(ch))
    }

    pub fn next_index(&self, conn: usize, dir: u8, ch: u8) -> u64 {
        self.next_idx[conn][dir as usize][ch as usize]
    }

    /// Bytes a message counts for in the "within budget" window. Until fix F26 the receiver reserved whole
    /// slices for a partial message and the window had to be slice-rounded; the budget is in bytes now.
    pub fn rounded(len: usize) -> usize {
        len
    }

    /// "Within budget" (DESIGN C09): sender accepts it and everything submitted and not yet
    /// obtained by the receiving application, slice-rounded, fits the receive budget.
    pub fn within_window(&self, conn: usize, dir: u8, ch: u8, len: usize) -> bool {
        if !self.can_send(conn, dir, ch, len) {
            return false;
        }
        let Some(spec) = self.cfg.chan(dir, ch) else { return false };
        if !spec.kind.reliable() {
            return true;
        }
        self.outstanding[conn][dir as usize][ch as usize] + Self::rounded(len) <= spec.max_mem
    }

    /// Submits a message (the sender must exist). Returns whether it was accepted.
    pub fn submit(&mut self, conn: usize, dir: u8, ch: u8, bytes: Vec<u8>, mons: &mut [Box<dyn Monitor>], ctx: &Ctx, out: &mut Outcome) -> bool {
        let sender_dead = self.sender(conn, dir).map_or(true, |e| e.is_disconnected());
        if sender_dead {
            return false;
        }
        let accepted = self.can_send(conn, dir, ch, bytes.len());
        if accepted && self.cfg.chan(dir, ch).map_or(false, |c| c.kind.reliable()) {
            self.outstanding[conn][dir as usize][ch as usize] += Self::rounded(bytes.len());
            self.outstanding_n[conn][dir as usize][ch as usize] += 1;
        }
        self.next_idx[conn][dir as usize][ch as usize] += 1;
        self.fp.u64(0x5B);
        self.fp.u64(((conn as u64) << 16) | ((dir as u64) << 8) | ch as u64);
        self.fp.u64(bytes.len() as u64);
        if self.log_on {
            self.log(format!("t{} submit c{} d{} ch{} len{}", self.tick, conn, dir, ch, bytes.len()));
        }
        {
            let ev = Ev::Submit {
                conn,
                dir,
                ch,
                bytes: &bytes,
                accepted,
            };
            for m in mons.iter_mut() {
                m.on(&ev, self, ctx, out);
            }
        }
        let b = Bytes::from(bytes);
        if dir == UP {
            self.clients[conn].send_message(ch, b);
        } else {
            self.server.send_message(self.ids[conn], ch, b);
        }
        accepted
    }

    /// Forced drain of everything followed by the Deadline event.
    pub fn deadline(&mut self, mons: &mut [Box<dyn Monitor>], ctx: &Ctx, out: &mut Outcome) {
        for c in 0..self.cfg.n_clients {
            for d in 0..2u8 {
                self.do_drain(c, d, mons, ctx, out);
            }
        }
        let ev = Ev::Deadline { tick: self.tick };
        for m in mons.iter_mut() {
            m.on(&ev, self, ctx, out);
        }
    }

    fn dt_ms(&mut self) -> u64 {
        match self.cfg.dt {
            DtMode::Fixed(d) => d,
            DtMode::Irregular(lo, hi) => self.rng.range(lo, hi),
        }
    }

    pub fn heal(&mut self, mons: &mut [Box<dyn Monitor>], ctx: &Ctx, out: &mut Outcome) {
        if self.healed {
            return;
        }
        self.healed = true;
        let now = self.tick;
        for d in 0..2 {
            for l in self.links[d].iter_mut() {
                l.heal(now);
            }
        }
        let ev = Ev::Healed { tick: self.tick };
        for m in mons.iter_mut() {
            m.on(&ev, self, ctx, out);
        }
        self.log(format!("t{} HEALED", self.tick));
    }

    fn do_update(&mut self, conn: usize, side: Side, dt: u64, mons: &mut [Box<dyn Monitor>], ctx: &Ctx, out: &mut Outcome) {
        match side {
            Side::Client => self.clients[conn].update(Duration::from_millis(dt)),
            Side::Server => {
                // RenetServer::update advances all connections at once; it is called once per tick
                // by `tick()`; per-connection update is not part of the public server API.
            }
        }
        let ev = Ev::Update { conn, side, dt_ms: dt };
        for m in mons.iter_mut() {
            m.on(&ev, self, ctx, out);
        }
    }

    fn item_key(p: &Packet) -> Option<u64> {
        match p {
            Packet::SmallReliable { channel_id, messages, .. } => messages.first().map(|(id, _)| ((*channel_id as u64) << 56) ^ (id << 20)),
            Packet::ReliableSlice { channel_id, slice, .. } => Some(((*channel_id as u64) << 56) ^ (slice.message_id << 20) ^ (slice.slice_index as u64 + 1)),
            Packet::UnreliableSlice { channel_id, slice, .. } => {
                Some(((*channel_id as u64) << 56) ^ (1 << 55) ^ (slice.message_id << 20) ^ (slice.slice_index as u64 + 1))
            }
            _ => None,
        }
    }

    /// get_packets_to_send of the sender of `dir`, everything goes into the link.
    pub fn do_send(&mut self, conn: usize, dir: u8, mons: &mut [Box<dyn Monitor>], ctx: &Ctx, out: &mut Outcome) {
        let pkts: Vec<Vec<u8>> = if dir == UP {
            self.clients[conn].get_packets_to_send()
        } else {
            match self.server.get_packets_to_send(self.ids[conn]) {
                Ok(p) => p,
                Err(_) => return,
            }
        };
        let decoded: Vec<Option<Packet>> = pkts.iter().map(|p| decode(p)).collect();
        let mut uids = Vec::with_capacity(pkts.len());
        let mut copies = Vec::with_capacity(pkts.len());
        let now = self.tick;
        for (p, d) in pkts.iter().zip(decoded.iter()) {
            if p.len() > self.max_pkt_len {
                self.max_pkt_len = p.len();
            }
            let key = d.as_ref().and_then(Self::item_key);
            let (uid, n) = self.links[dir as usize][conn].send(now, p, key, &mut self.rng);
            uids.push(uid);
            copies.push(n);
            self.fp.u64(0xA0 | dir as u64);
            self.fp.u64(p.len() as u64);
            self.fp.u64(n as u64);
        }
        if self.log_on && !pkts.is_empty() {
            let desc: Vec<String> = decoded
                .iter()
                .zip(copies.iter())
                .map(|(d, n)| format!("{}x{}", d.as_ref().map_or("?".to_string(), brief), n))
                .collect();
            self.log(format!("t{} send c{} d{} [{}]", self.tick, conn, dir, desc.join(" ")));
        }
        let ev = Ev::SendCall {
            conn,
            dir,
            now_ms: self.now_ms,
            pkts: &pkts,
            decoded: &decoded,
            uids: &uids,
            copies: &copies,
        };
        for m in mons.iter_mut() {
            m.on(&ev, self, ctx, out);
        }
    }

    /// Delivers all due datagrams of direction `dir` to the receiver.
    pub fn do_deliver(&mut self, conn: usize, dir: u8, mons: &mut [Box<dyn Monitor>], ctx: &Ctx, out: &mut Outcome) {
        let now = self.tick;
        let due = self.links[dir as usize][conn].due(now, &mut self.rng);
        for f in due {
            let decoded = decode(&f.bytes);
            let receiver_disconnected = self.receiver(conn, dir).map_or(true, |e| e.is_disconnected());
            if self.log_on {
                self.log(format!(
                    "t{} arrive c{} d{} uid{}#{} {}",
                    self.tick,
                    conn,
                    dir,
                    f.uid,
                    f.copy,
                    decoded.as_ref().map_or("?".to_string(), brief)
                ));
            }
            self.fp.u64(0xD0 | dir as u64);
            self.fp.u64(f.uid);
            {
                let ev = Ev::Arrive {
                    conn,
                    dir,
                    uid: f.uid,
                    copy: f.copy,
                    bytes: &f.bytes,
                    decoded: decoded.as_ref(),
                    receiver_disconnected,
                };
                for m in mons.iter_mut() {
                    m.on(&ev, self, ctx, out);
                }
            }
            if dir == UP {
                let _ = self.server.process_packet_from(&f.bytes, self.ids[conn]);
            } else {
                self.clients[conn].process_packet(&f.bytes);
            }
            {
                let ev = Ev::Arrived { conn, dir, uid: f.uid };
                for m in mons.iter_mut() {
                    m.on(&ev, self, ctx, out);
                }
            }
            if self.cfg.drain == DrainMode::AfterEveryArrival || (self.cfg.drain == DrainMode::Random && self.rng.chance(1, 3)) {
                self.do_drain(conn, dir, mons, ctx, out);
            }
        }
    }

    /// The receiving application of direction `dir` drains every channel until None.
    pub fn do_drain(&mut self, conn: usize, dir: u8, mons: &mut [Box<dyn Monitor>], ctx: &Ctx, out: &mut Outcome) {
        let chans: Vec<u8> = self.cfg.chans(dir).iter().map(|c| c.id).collect();
        for ch in chans {
            self.drain_channel(conn, dir, ch, u64::MAX, mons, ctx, out);
        }
    }

    /// Receives up to `limit` messages from one channel; emits DrainEnd only if None was reached.
    pub fn drain_channel(&mut self, conn: usize, dir: u8, ch: u8, limit: u64, mons: &mut [Box<dyn Monitor>], ctx: &Ctx, out: &mut Outcome) {
        let mut n = 0;
        loop {
            if n >= limit {
                return;
            }
            let m = if dir == UP {
                self.server.receive_message(self.ids[conn], ch)
            } else {
                self.clients[conn].receive_message(ch)
            };
            let Some(m) = m else { break };
            n += 1;
            {
                let o = &mut self.outstanding[conn][dir as usize][ch as usize];
                *o = o.saturating_sub(Self::rounded(m.len()));
                let n = &mut self.outstanding_n[conn][dir as usize][ch as usize];
                *n = n.saturating_sub(1);
            }
            self.fp.u64(0xE0 | dir as u64);
            self.fp.u64(m.len() as u64);
            if self.log_on {
                self.log(format!("t{} recv c{} d{} ch{} len{}", self.tick, conn, dir, ch, m.len()));
            }
            let ev = Ev::Recv {
                conn,
                dir,
                ch,
                bytes: &m,
            };
            for mo in mons.iter_mut() {
                mo.on(&ev, self, ctx, out);
            }
        }
        let ev = Ev::DrainEnd { conn, dir, ch };
        for mo in mons.iter_mut() {
            mo.on(&ev, self, ctx, out);
        }
    }

    /// One tick: update all endpoints by dt, then send / deliver / drain per endpoint in a
    /// seeded order. Submissions are done by the caller before `tick`.
    pub fn tick(&mut self, mons: &mut [Box<dyn Monitor>], ctx: &Ctx, out: &mut Outcome) {
        let dt = self.dt_ms();
        self.tick += 1;
        self.now_ms += dt;
        self.server.update(Duration::from_millis(dt));
        for c in 0..self.cfg.n_clients {
            self.do_update(c, Side::Server, dt, mons, ctx, out);
            self.do_update(c, Side::Client, dt, mons, ctx, out);
        }
        // actions: (conn, dir, phase) phase 0 = send, 1 = deliver, 2 = drain
        let mut actions: Vec<(usize, u8, u8)> = Vec::new();
        for c in 0..self.cfg.n_clients {
            for d in 0..2u8 {
                actions.push((c, d, 0));
                actions.push((c, d, 1));
                let drain_now = match self.cfg.drain {
                    DrainMode::EveryTick | DrainMode::AfterEveryArrival => true,
                    DrainMode::EveryN(n) => self.tick % n.max(1) == 0,
                    DrainMode::Random => self.rng.chance(1, 2),
                    DrainMode::Never => false,
                };
                if drain_now {
                    actions.push((c, d, 2));
                }
            }
        }
        if self.cfg.shuffle_phases {
            self.rng.shuffle(&mut actions);
        } else {
            // canonical: all sends, then all deliveries, then drains
            actions.sort_by_key(|a| (a.2, a.0, a.1));
        }
        for (c, d, ph) in actions {
            if ph == 0 && self.cfg.skip_send_pct > 0 && self.rng.chance(self.cfg.skip_send_pct, 100) {
                continue;
            }
            match ph {
                0 => self.do_send(c, d, mons, ctx, out),
                1 => self.do_deliver(c, d, mons, ctx, out),
                _ => self.do_drain(c, d, mons, ctx, out),
            }
        }
        let ev = Ev::TickEnd { tick: self.tick };
        for m in mons.iter_mut() {
            m.on(&ev, self, ctx, out);
        }
    }

    pub fn finish(&mut self, mons: &mut [Box<dyn Monitor>], ctx: &Ctx, out: &mut Outcome) {
        for m in mons.iter_mut() {
            m.finish(self, ctx, out);
        }
    }

    pub fn in_flight(&self) -> usize {
        self.links[0].iter().map(|l| l.in_flight()).sum::<usize>() + self.links[1].iter().map(|l| l.in_flight()).sum::<usize>()
    }

    pub fn link_totals(&self) -> (u64, u64, u64, u64, u64) {
        let mut t = (0, 0, 0, 0, 0);
        for d in 0..2 {
            for l in &self.links[d] {
                t.0 += l.stats.sent;
                t.1 += l.stats.dropped;
                t.2 += l.stats.duplicated;
                t.3 += l.stats.delayed;
                t.4 += l.stats.reordered;
            }
        }
        t
    }

    pub fn replay_value(&self, prop: &str, engine: &str, clause: &str, extra: Value) -> Value {
        json!({
            "property": prop,
            "engine": engine,
            "run_seed": format!("{:#x}", self.run_seed),
            "cfg": self.cfg.describe(),
            "tick": self.tick,
            "violated_clause": clause,
            "extra": extra,
            "log_tail": self.log_tail.iter().rev().take(120).rev().collect::<Vec<_>>(),
        })
    }
}

pub fn brief(p: &Packet) -> String {
    match p {
        Packet::SmallReliable {
            sequence,
            channel_id,
            messages,
        } => format!(
            "SR(s{} ch{} ids{:?})",
            sequence,
            channel_id,
            messages.iter().map(|(i, m)| format!("{}:{}", i, m.len())).collect::<Vec<_>>()
        ),
        Packet::SmallUnreliable {
            sequence,
            channel_id,
            messages,
        } => format!(
            "SU(s{} ch{} lens{:?})",
            sequence,
            channel_id,
            messages.iter().map(|m| m.len()).collect::<Vec<_>>()
        ),
        Packet::ReliableSlice {
            sequence,
            channel_id,
            slice,
        } => format!(
            "RS(s{} ch{} m{} {}/{} len{})",
            sequence,
            channel_id,
            slice.message_id,
            slice.slice_index,
            slice.num_slices,
            slice.payload.len()
        ),
        Packet::UnreliableSlice {
            sequence,
            channel_id,
            slice,
        } => format!(
            "US(s{} ch{} m{} {}/{} len{})",
            sequence,
            channel_id,
            slice.message_id,
            slice.slice_index,
            slice.num_slices,
            slice.payload.len()
        ),
        Packet::Ack { sequence, ack_ranges } => {
            if ack_ranges.len() <= 6 {
                format!("ACK(s{} {:?})", sequence, ack_ranges)
            } else {
                format!("ACK(s{} {} ranges ..{:?})", sequence, ack_ranges.len(), ack_ranges.last())
            }
        }
    }
}

/// What the library documents for `ConnectionConfig::default()`: three channels named by `DefaultChannel`, 5 MiB each,
/// reliable ones resent after 300 ms. Ids are taken from the enum's own conversion, kinds from the variant names.
pub fn default_channel_specs() -> Vec<ChanSpec> {
    use renet::DefaultChannel as D;
    vec![
        ChanSpec { id: u8::from(D::Unreliable), kind: Kind::Unreliable, resend_ms: 0, max_mem: 5 * 1024 * 1024 },
        ChanSpec { id: u8::from(D::ReliableUnordered), kind: Kind::ReliableUnordered, resend_ms: 300, max_mem: 5 * 1024 * 1024 },
        ChanSpec { id: u8::from(D::ReliableOrdered), kind: Kind::ReliableOrdered, resend_ms: 300, max_mem: 5 * 1024 * 1024 },
    ]
}

/// Random but sane configuration generator used by several properties.
pub struct CfgGen {
    pub max_clients: usize,
    pub small_budgets: bool,
    pub min_bytes_per_tick: u64,
    pub profiles: Vec<Profile>,
}

impl CfgGen {
    pub fn gen(&self, r: &mut Rng) -> SimCfg {
        let n_clients = r.urange(1, self.max_clients.max(1));
        let resend = *r.pick(&[0u64, 10, 100, 300]);
        let mem = |r: &mut Rng, small: bool| -> usize {
            if small {
                *r.pick(&[8 * 1024usize, 16 * 1024, 32 * 1024, 64 * 1024])
            } else {
                *r.pick(&[64 * 1024usize, 512 * 1024, 5 * 1024 * 1024])
            }
        };
        let wide = r.chance(1, 3);
        let mk = |r: &mut Rng, small: bool| -> Vec<ChanSpec> {
            let mut v = vec![
                ChanSpec {
                    id: 0,
                    kind: Kind::Unreliable,
                    resend_ms: 0,
                    max_mem: mem(r, small),
                },
                ChanSpec {
                    id: 1,
                    kind: Kind::ReliableUnordered,
                    resend_ms: resend,
                    max_mem: mem(r, small),
                },
                ChanSpec {
                    id: 2,
                    kind: Kind::ReliableOrdered,
                    resend_ms: resend,
                    max_mem: mem(r, small),
                },
            ];
            if r.chance(1, 3) {
                v.push(ChanSpec {
                    id: 7,
                    kind: Kind::ReliableOrdered,
                    resend_ms: *r.pick(&[0u64, 50, 300]),
                    max_mem: mem(r, small),
                });
            }
            // "wide" ids: the whole u8 range is legal for channel ids; move every channel by a multiple of
            // 32 and sometimes add a twin of the same kind whose id differs only in one high bit
            if wide {
                for c in v.iter_mut() {
                    c.id = c.id.wrapping_add(32 * r.below(8) as u8);
                }
                if r.chance(1, 2) {
                    let base = r.pick(&v).clone();
                    let twin_id = base.id ^ *r.pick(&[32u8, 64, 128]);
                    if !v.iter().any(|c| c.id == twin_id) {
                        v.push(ChanSpec { id: twin_id, ..base });
                    }
                }
                // ids must stay unique within the list
                let mut seen = std::collections::BTreeSet::new();
                v.retain(|c| seen.insert(c.id));
            }
            r.shuffle(&mut v);
            v
        };
        let up = mk(r, self.small_budgets);
        let mut down = mk(r, self.small_budgets);
        // asymmetric configurations: the same channel id may be of one kind client->server and of another
        // server->client (each endpoint must send with its own list and receive with the peer's)
        if down.len() >= 2 && r.chance(1, 4) {
            let a = r.usize_below(down.len());
            let b = r.usize_below(down.len());
            if a != b {
                let (ia, ib) = (down[a].id, down[b].id);
                down[a].id = ib;
                down[b].id = ia;
            }
        }
        let bpt_choices: Vec<u64> = [1200u64, 1201, 2500, 6000, 60_000, 1_000_000]
            .iter()
            .copied()
            .filter(|b| *b >= self.min_bytes_per_tick)
            .collect();
        let bytes_per_tick = *r.pick(&bpt_choices);
        let dt = match r.below(6) {
            0 => DtMode::Fixed(1),
            1 => DtMode::Fixed(16),
            2 => DtMode::Fixed(100),
            3 => DtMode::Fixed(resend.max(1)),
            4 => DtMode::Fixed((resend * 5 / 2).max(3)),
            _ => DtMode::Irregular(1, 120),
        };
        let drain = match r.below(5) {
            0 => DrainMode::EveryTick,
            1 => DrainMode::AfterEveryArrival,
            2 => DrainMode::EveryN(r.range(2, 9)),
            _ => DrainMode::Random,
        };
        let mut link_up = Vec::new();
        let mut link_down = Vec::new();
        for _ in 0..n_clients {
            let p = *r.pick(&self.profiles);
            let q = if r.chance(2, 3) { p } else { *r.pick(&self.profiles) };
            link_up.push(LinkCfg::from_profile(p, r));
            link_down.push(LinkCfg::from_profile(q, r));
        }
        // the configuration an application gets without writing one: ConnectionConfig::default(), addressed through
        // the DefaultChannel enum
        let library_default = r.chance(1, 10) && self.min_bytes_per_tick <= 60_000;
        let (up, down, bytes_per_tick) = if library_default { (default_channel_specs(), default_channel_specs(), 60_000) } else { (up, down, bytes_per_tick) };
        SimCfg {
            library_default,
            n_clients,
            up,
            down,
            bytes_per_tick,
            dt,
            drain,
            link_up,
            link_down,
            shuffle_phases: r.chance(1, 2),
            skip_send_pct: 0,
        }
    }
}
