//! Generic honest-traffic workload on the renet simulator: a fault phase with submissions,
//! then "the network delivers again" and a bounded-delivery deadline (DESIGN C01/C02/C03).

use crate::outcome::{Ctx, Outcome};
use crate::payload;
use crate::rng::Rng;
use crate::rsim::{DtMode, Ev, Kind, Monitor, Sim, SimCfg, DOWN, UP};
use renet::verif::Packet;
use serde_json::{json, Value};
use std::collections::{HashMap, HashSet};

#[derive(Clone, Debug)]
pub struct Plan {
    /// number of ticks with faults and submissions
    pub fault_ticks: u64,
    /// average submissions per tick per direction (in 1/100)
    pub rate_x100: u64,
    /// total cap on submissions per (conn,dir)
    pub max_msgs: u64,
    /// which channel kinds receive traffic
    pub kinds: Vec<Kind>,
    pub allow_large: bool,
    /// extra clean ticks after everything has been obtained (late duplicates still arrive)
    pub tail_ticks: u64,
    /// assert the bounded-delivery deadline
    pub liveness: bool,
    /// max message length
    pub max_len: usize,
    /// overload: submissions are limited by the sender's own can_send_message only, not by the receive window - the
    /// receiver may run out of budget (a loud disconnect, which excuses delivery) but nothing may be lost silently
    pub overload: bool,
    /// flood mode: hundreds of tiny messages per tick so that thousands of message ids are in
    /// flight / buffered between two receive calls (id-distance thresholds like 64, 256, 1024, 4096)
    pub flood: bool,
}

#[derive(Default, Debug, Clone)]
pub struct Summary {
    pub submitted: u64,
    pub ticks: u64,
    pub bound: u64,
    pub all_obtained: bool,
    pub any_disconnected: bool,
    pub dropped: u64,
    pub duplicated: u64,
    pub reordered: u64,
    pub delayed: u64,
    pub retransmissions: u64,
    pub fingerprint: u64,
    pub max_pkt_len: usize,
}

/// Counts wire-level phenomena for coverage gates (never decides anything).
#[derive(Default)]
pub struct CoverageMonitor {
    seen_items: HashSet<(usize, u8, u64)>,
    pub retransmissions: u64,
    recv_burst: HashMap<(usize, u8, u8), u64>,
}

impl CoverageMonitor {
    pub fn new() -> Self {
        Self::default()
    }
    fn keys(p: &Packet) -> Vec<u64> {
        match p {
            Packet::SmallReliable { channel_id, messages, .. } => messages.iter().map(|(id, _)| ((*channel_id as u64) << 56) ^ (id << 16)).collect(),
            Packet::ReliableSlice { channel_id, slice, .. } => {
                vec![((*channel_id as u64) << 56) ^ (slice.message_id << 16) ^ (slice.slice_index as u64 + 1)]
            }
            _ => vec![],
        }
    }
}

impl Monitor for CoverageMonitor {
    fn name(&self) -> &'static str {
        "coverage"
    }
    fn on(&mut self, ev: &Ev, _sim: &Sim, _ctx: &Ctx, out: &mut Outcome) {
        match ev {
            Ev::SendCall { conn, dir, decoded, .. } => {
                for p in decoded.iter().flatten() {
                    for k in Self::keys(p) {
                        if !self.seen_items.insert((*conn, *dir, k)) {
                            self.retransmissions += 1;
                            out.count("retransmissions");
                        }
                    }
                    match p {
                        Packet::ReliableSlice { .. } => out.count("wire_reliable_slices"),
                        Packet::UnreliableSlice { .. } => out.count("wire_unreliable_slices"),
                        Packet::SmallReliable { messages, .. } => {
                            if messages.len() > 1 {
                                out.count("wire_packed_reliable");
                            }
                        }
                        Packet::SmallUnreliable { messages, .. } => {
                            if messages.len() > 1 {
                                out.count("wire_packed_unreliable");
                            }
                        }
                        Packet::Ack { ack_ranges, .. } => {
                            out.max("ack_ranges", ack_ranges.len() as u64);
                            if ack_ranges.len() > 1 {
                                out.count("wire_ack_multi_range");
                            }
                        }
                    }
                }
            }
            Ev::Recv { conn, dir, ch, .. } => {
                *self.recv_burst.entry((*conn, *dir, *ch)).or_insert(0) += 1;
            }
            Ev::DrainEnd { conn, dir, ch } => {
                if let Some(n) = self.recv_burst.remove(&(*conn, *dir, *ch)) {
                    if n > 1 {
                        out.count("recv_burst_gt1");
                    }
                }
            }
            _ => {}
        }
    }
}

pub fn dt_min(cfg: &SimCfg) -> u64 {
    match cfg.dt {
        DtMode::Fixed(d) => d.max(1),
        DtMode::Irregular(lo, _) => lo.max(1),
    }
}

/// Liveness bound in ticks after the links were healed (DESIGN C01): generous multiple of the
/// worst case of a correct implementation.
pub fn liveness_bound(sim: &Sim) -> u64 {
    let cfg = &sim.cfg;
    let resend_max = cfg.up.iter().chain(cfg.down.iter()).map(|c| c.resend_ms).max().unwrap_or(0);
    let r = resend_max.div_ceil(dt_min(cfg)) + 2;
    let mut worst = 0u64;
    for c in 0..cfg.n_clients {
        for d in 0..2usize {
            let b: usize = sim.outstanding[c][d].iter().sum::<usize>();
            // every outstanding message may need one more full transmission; count per-message slack
            worst = worst.max(b as u64 + 2400 * 64);
        }
    }
    let per_tick = cfg.bytes_per_tick.saturating_sub(1199).max(1);
    3 * r + 4 * worst.div_ceil(per_tick) + 20
}

pub fn all_obtained(sim: &Sim) -> bool {
    sim.outstanding_n.iter().all(|c| c[0].iter().all(|x| *x == 0) && c[1].iter().all(|x| *x == 0))
}

/// Runs one traffic execution. The monitors decide; the summary is for evidence.
pub fn run(ctx: &Ctx, out: &mut Outcome, cfg: SimCfg, plan: &Plan, run_seed: u64, mons: &mut Vec<Box<dyn Monitor>>) -> (Summary, Sim) {
    if cfg.library_default {
        out.count("runs_with_library_default_config");
    }
    let mut sim = Sim::new(cfg, run_seed);
    let retx_before = out.get("retransmissions");
    let mut r = Rng::new(run_seed ^ 0x7AFF1C);
    let tag = r.next_u64();
    let micro = plan.flood && r.chance(1, 3);
    if micro {
        out.count("flood_micro_runs");
    }
    let mut submitted = 0u64;
    let mut per: HashMap<(usize, u8), u64> = HashMap::new();

    for _ in 0..plan.fault_ticks {
        for c in 0..sim.cfg.n_clients {
            for d in [UP, DOWN] {
                let mut n = plan.rate_x100 / 100;
                if r.chance(plan.rate_x100 % 100, 100) {
                    n += 1;
                }
                if r.chance(1, 12) {
                    n += r.range(2, 12); // bursts
                }
                if plan.flood {
                    n = r.range(100, 450);
                    // a third of the micro floods put far more than 256 (and sometimes more than 1024) tiny messages
                    // of one channel into a single packet: per-packet message counts beyond one byte
                    if micro && r.chance(1, 3) {
                        n = r.range(600, 2400);
                    }
                }
                for _ in 0..n {
                    if *per.get(&(c, d)).unwrap_or(&0) >= plan.max_msgs {
                        break;
                    }
                    let chans: Vec<(u8, Kind, usize)> = sim.cfg.chans(d).iter().filter(|s| plan.kinds.contains(&s.kind)).map(|s| (s.id, s.kind, s.max_mem)).collect();
                    if chans.is_empty() {
                        break;
                    }
                    let (ch, _kind, max_mem) = *r.pick(&chans);
                    let len = if plan.flood && !r.chance(1, 200) {
                        // "micro" floods: 0..2-byte messages, several hundred of them share one packet
                        if micro {
                            r.urange(0, 2)
                        } else {
                            r.urange(0, 40)
                        }
                    } else {
                        payload::pick_len(&mut r, plan.max_len.min(max_mem / 2), plan.allow_large)
                    };
                    if plan.overload {
                        if !sim.can_send(c, d, ch, len) {
                            continue;
                        }
                    } else if !sim.within_window(c, d, ch, len) {
                        out.count("submit_deferred_window");
                        continue;
                    }
                    let idx = sim.next_index(c, d, ch);
                    let bytes = payload::make(c as u8, d, ch, 0, idx, len, tag);
                    if sim.submit(c, d, ch, bytes, mons, ctx, out) {
                        submitted += 1;
                        *per.entry((c, d)).or_insert(0) += 1;
                    }
                }
            }
        }
        sim.tick(mons, ctx, out);
        if out.should_stop() {
            break;
        }
    }

    sim.heal(mons, ctx, out);
    let bound = liveness_bound(&sim);
    let mut extra = 0u64;
    let mut t = 0u64;
    let mut obtained_at: Option<u64> = None;
    while t < bound {
        sim.tick(mons, ctx, out);
        t += 1;
        if all_obtained(&sim) {
            if obtained_at.is_none() {
                obtained_at = Some(t);
            }
            extra += 1;
            if extra > plan.tail_ticks && sim.in_flight() == 0 {
                break;
            }
            if extra > plan.tail_ticks + 100 {
                break;
            }
        }
        if out.should_stop() {
            break;
        }
    }
    if let Some(t) = obtained_at {
        out.max("ticks_to_full_delivery_after_heal", t);
    }
    sim.deadline(mons, ctx, out);
    sim.finish(mons, ctx, out);

    let (_sent, dropped, duplicated, delayed, reordered) = sim.link_totals();
    let any_disc = (0..sim.cfg.n_clients).any(|c| sim.any_disconnected(c));
    let s = Summary {
        submitted,
        ticks: sim.tick,
        bound,
        all_obtained: all_obtained(&sim),
        any_disconnected: any_disc,
        dropped,
        duplicated,
        reordered,
        delayed,
        retransmissions: out.get("retransmissions") - retx_before,
        fingerprint: sim.fp.finish(),
        max_pkt_len: sim.max_pkt_len,
    };
    if any_disc {
        out.count("runs_ending_disconnected");
        for c in 0..sim.cfg.n_clients {
            for side in [crate::rsim::Side::Client, crate::rsim::Side::Server] {
                if let Some(reason) = sim.reason(c, side) {
                    out.count(&format!("disconnect.{:?}", reason).replace(' ', ""));
                }
            }
        }
    }
    (s, sim)
}

pub fn sample_value(sim: &Sim, s: &Summary) -> Value {
    json!({
        "run_seed": format!("{:#x}", sim.run_seed),
        "cfg": sim.cfg.describe(),
        "submitted": s.submitted, "ticks": s.ticks, "deadline_bound_ticks": s.bound,
        "link": {"dropped": s.dropped, "duplicated": s.duplicated, "delayed": s.delayed, "reordered": s.reordered},
        "all_obtained": s.all_obtained, "any_disconnected": s.any_disconnected,
        "first_events": sim.log_head.iter().take(14).collect::<Vec<_>>(),
    })
}
