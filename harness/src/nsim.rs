//! Netcode-level helpers: deterministic token minting, owned packet views through the crate's
//! own codec (hook), server / client wrappers with owned results, observable-state snapshots,
//! and a small datagram network with fault injection (DESIGN section 3 "netcode driver").

use crate::rng::Rng;
use renetcode::verif::{Packet, PrivateToken, ReplayProtection};
use renetcode::{ClientAuthentication, ConnectToken, NetcodeClient, NetcodeServer, ServerAuthentication, ServerConfig, ServerResult};
use std::net::{IpAddr, Ipv4Addr, Ipv6Addr, SocketAddr};
use std::time::Duration;

pub const VERSION_INFO: [u8; 13] = *b"NETCODE 1.02\0";

pub fn addr4(a: u8, b: u8, port: u16) -> SocketAddr {
    SocketAddr::new(IpAddr::V4(Ipv4Addr::new(10, a, b, 1)), port)
}

pub fn addr6(x: u16, port: u16) -> SocketAddr {
    SocketAddr::new(IpAddr::V6(Ipv6Addr::new(0xfd00, 0, 0, 0, 0, 0, 1, x)), port)
}

/// Everything the harness knows about a token it minted (it plays the matchmaker).
#[derive(Clone, Debug)]
pub struct Minted {
    pub token: ConnectToken,
    pub private: PrivateToken,
    pub sealed_under: [u8; 32],
    pub create: u64,
    pub expire: u64,
}

#[allow(clippy::too_many_arguments)]
pub fn mint(
    r: &mut Rng,
    now_s: u64,
    protocol_id: u64,
    expire_seconds: u64,
    client_id: u64,
    timeout_seconds: i32,
    addrs: &[SocketAddr],
    user_data: Option<[u8; 256]>,
    private_key: &[u8; 32],
) -> Minted {
    let mut server_addresses = [None; 32];
    for (i, a) in addrs.iter().take(32).enumerate() {
        server_addresses[i] = Some(*a);
    }
    let mut c2s = [0u8; 32];
    let mut s2c = [0u8; 32];
    r.fill(&mut c2s);
    r.fill(&mut s2c);
    let user_data = user_data.unwrap_or_else(|| {
        let mut u = [0u8; 256];
        r.fill(&mut u);
        u
    });
    let private = PrivateToken {
        client_id,
        timeout_seconds,
        server_addresses,
        client_to_server_key: c2s,
        server_to_client_key: s2c,
        user_data,
    };
    let mut xnonce = [0u8; 24];
    r.fill(&mut xnonce);
    let expire = now_s + expire_seconds;
    let private_data = renetcode::verif::private_token_encode(&private, protocol_id, expire, &xnonce, private_key).expect("token encode");
    let token = ConnectToken {
        client_id,
        version_info: VERSION_INFO,
        protocol_id,
        create_timestamp: now_s,
        expire_timestamp: expire,
        xnonce,
        server_addresses,
        client_to_server_key: c2s,
        server_to_client_key: s2c,
        private_data,
        timeout_seconds,
    };
    Minted {
        token,
        private,
        sealed_under: *private_key,
        create: now_s,
        expire,
    }
}

/// A token produced by the library's own generator (`ConnectToken::generate`: OS randomness for the
/// keys and the nonce, so ciphertext bytes differ from run to run; decisions never depend on them).
#[allow(clippy::too_many_arguments)]
pub fn mint_lib(
    now_s: u64,
    protocol_id: u64,
    expire_seconds: u64,
    client_id: u64,
    timeout_seconds: i32,
    addrs: &[SocketAddr],
    user_data: Option<[u8; 256]>,
    private_key: &[u8; 32],
) -> Option<Minted> {
    let token = ConnectToken::generate(
        Duration::from_secs(now_s),
        protocol_id,
        expire_seconds,
        client_id,
        timeout_seconds,
        addrs.to_vec(),
        user_data.as_ref(),
        private_key,
    )
    .ok()?;
    let private = renetcode::verif::private_token_decode(&token.private_data, protocol_id, token.expire_timestamp, &token.xnonce, private_key).ok()?;
    let expire = token.expire_timestamp;
    Some(Minted {
        token,
        private,
        sealed_under: *private_key,
        create: now_s,
        expire,
    })
}

pub fn token_bytes(t: &ConnectToken) -> Vec<u8> {
    let mut v = Vec::with_capacity(2048);
    t.write(&mut v).expect("token write");
    v
}

/// Owned view of a netcode packet.
#[derive(Clone, Debug, PartialEq, Eq)]
pub enum OPacket {
    Request {
        version_info: [u8; 13],
        protocol_id: u64,
        expire_timestamp: u64,
        xnonce: [u8; 24],
        data: Box<[u8; 1024]>,
    },
    Denied,
    Challenge { token_sequence: u64, token_data: Box<[u8; 300]> },
    Response { token_sequence: u64, token_data: Box<[u8; 300]> },
    KeepAlive { client_index: u32, max_clients: u32 },
    Payload(Vec<u8>),
    Disconnect,
}

impl OPacket {
    pub fn from(p: &Packet) -> OPacket {
        match p {
            Packet::ConnectionRequest {
                version_info,
                protocol_id,
                expire_timestamp,
                xnonce,
                data,
            } => OPacket::Request {
                version_info: *version_info,
                protocol_id: *protocol_id,
                expire_timestamp: *expire_timestamp,
                xnonce: *xnonce,
                data: Box::new(*data),
            },
            Packet::ConnectionDenied => OPacket::Denied,
            Packet::Challenge { token_sequence, token_data } => OPacket::Challenge {
                token_sequence: *token_sequence,
                token_data: Box::new(*token_data),
            },
            Packet::Response { token_sequence, token_data } => OPacket::Response {
                token_sequence: *token_sequence,
                token_data: Box::new(*token_data),
            },
            Packet::KeepAlive { client_index, max_clients } => OPacket::KeepAlive {
                client_index: *client_index,
                max_clients: *max_clients,
            },
            Packet::Payload(p) => OPacket::Payload(p.to_vec()),
            Packet::Disconnect => OPacket::Disconnect,
        }
    }

    pub fn type_id(&self) -> u8 {
        match self {
            OPacket::Request { .. } => 0,
            OPacket::Denied => 1,
            OPacket::Challenge { .. } => 2,
            OPacket::Response { .. } => 3,
            OPacket::KeepAlive { .. } => 4,
            OPacket::Payload(_) => 5,
            OPacket::Disconnect => 6,
        }
    }

    pub fn name(&self) -> &'static str {
        match self {
            OPacket::Request { .. } => "request",
            OPacket::Denied => "denied",
            OPacket::Challenge { .. } => "challenge",
            OPacket::Response { .. } => "response",
            OPacket::KeepAlive { .. } => "keepalive",
            OPacket::Payload(_) => "payload",
            OPacket::Disconnect => "disconnect",
        }
    }

    /// Encodes with the crate's encoder. `crypto` = (sequence, key) for sealed kinds.
    pub fn encode(&self, protocol_id: u64, crypto: Option<(u64, &[u8; 32])>) -> Option<Vec<u8>> {
        let mut buf = [0u8; 2048];
        let payload_holder;
        let p: Packet = match self {
            OPacket::Request {
                version_info,
                protocol_id,
                expire_timestamp,
                xnonce,
                data,
            } => Packet::ConnectionRequest {
                version_info: *version_info,
                protocol_id: *protocol_id,
                expire_timestamp: *expire_timestamp,
                xnonce: *xnonce,
                data: **data,
            },
            OPacket::Denied => Packet::ConnectionDenied,
            OPacket::Challenge { token_sequence, token_data } => Packet::Challenge {
                token_sequence: *token_sequence,
                token_data: **token_data,
            },
            OPacket::Response { token_sequence, token_data } => Packet::Response {
                token_sequence: *token_sequence,
                token_data: **token_data,
            },
            OPacket::KeepAlive { client_index, max_clients } => Packet::KeepAlive {
                client_index: *client_index,
                max_clients: *max_clients,
            },
            OPacket::Payload(v) => {
                payload_holder = v.clone();
                Packet::Payload(&payload_holder)
            }
            OPacket::Disconnect => Packet::Disconnect,
        };
        match p.encode(&mut buf, protocol_id, crypto) {
            Ok(n) => Some(buf[..n].to_vec()),
            Err(_) => None,
        }
    }
}

/// Opens a datagram with the crate's decoder (no replay protection). Returns (sequence, packet).
pub fn open(bytes: &[u8], protocol_id: u64, key: Option<&[u8; 32]>) -> Option<(u64, OPacket)> {
    let mut buf = bytes.to_vec();
    match Packet::decode(&mut buf, protocol_id, key, None) {
        Ok((seq, p)) => Some((seq, OPacket::from(&p))),
        Err(_) => None,
    }
}

/// Same, with a replay window supplied by the caller.
pub fn open_rp(bytes: &[u8], protocol_id: u64, key: Option<&[u8; 32]>, rp: &mut ReplayProtection) -> Result<(u64, OPacket), String> {
    let mut buf = bytes.to_vec();
    match Packet::decode(&mut buf, protocol_id, key, Some(rp)) {
        Ok((seq, p)) => Ok((seq, OPacket::from(&p))),
        Err(e) => Err(format!("{:?}", e)),
    }
}

/// Prefix byte helpers (wire facts from the netcode standard, not implementation details):
/// low nibble = packet type, high nibble = number of sequence bytes that follow.
pub fn prefix_type(b: u8) -> u8 {
    b & 0xF
}
pub fn prefix_seq_len(b: u8) -> usize {
    (b >> 4) as usize
}
/// Reads the sequence number announced by the prefix of a sealed datagram.
pub fn wire_sequence(bytes: &[u8]) -> Option<u64> {
    let b = *bytes.first()?;
    let n = prefix_seq_len(b);
    if n > 8 || bytes.len() < 1 + n {
        return None;
    }
    let mut s = [0u8; 8];
    s[..n].copy_from_slice(&bytes[1..1 + n]);
    Some(u64::from_le_bytes(s))
}

/// Owned copy of a ServerResult.
#[derive(Clone, Debug, PartialEq, Eq)]
pub enum SResult {
    None,
    Send { addr: SocketAddr, bytes: Vec<u8> },
    Payload { client_id: u64, bytes: Vec<u8> },
    Connected { client_id: u64, addr: SocketAddr, user_data: Box<[u8; 256]>, bytes: Vec<u8> },
    Disconnected { client_id: u64, addr: SocketAddr, bytes: Option<Vec<u8>> },
}

impl SResult {
    pub fn from(r: ServerResult) -> SResult {
        match r {
            ServerResult::None => SResult::None,
            ServerResult::PacketToSend { addr, payload } => SResult::Send {
                addr,
                bytes: payload.to_vec(),
            },
            ServerResult::Payload { client_id, payload } => SResult::Payload {
                client_id,
                bytes: payload.to_vec(),
            },
            ServerResult::ClientConnected {
                client_id,
                addr,
                user_data,
                payload,
            } => SResult::Connected {
                client_id,
                addr,
                user_data,
                bytes: payload.to_vec(),
            },
            ServerResult::ClientDisconnected { client_id, addr, payload } => SResult::Disconnected {
                client_id,
                addr,
                bytes: payload.map(|p| p.to_vec()),
            },
        }
    }
    pub fn kind(&self) -> &'static str {
        match self {
            SResult::None => "none",
            SResult::Send { .. } => "send",
            SResult::Payload { .. } => "payload",
            SResult::Connected { .. } => "connected",
            SResult::Disconnected { .. } => "disconnected",
        }
    }
    /// (destination, datagram) this result asks the transport to send, if any.
    pub fn outgoing(&self) -> Option<(SocketAddr, &Vec<u8>)> {
        match self {
            SResult::Send { addr, bytes } => Some((*addr, bytes)),
            SResult::Connected { addr, bytes, .. } => Some((*addr, bytes)),
            SResult::Disconnected { addr, bytes: Some(b), .. } => Some((*addr, b)),
            _ => None,
        }
    }
}

pub struct Srv {
    pub s: NetcodeServer,
    pub protocol_id: u64,
    pub key: [u8; 32],
    pub addrs: Vec<SocketAddr>,
    pub now: Duration,
    pub secure: bool,
}

impl Srv {
    pub fn new(now: Duration, max_clients: usize, protocol_id: u64, addrs: Vec<SocketAddr>, key: [u8; 32], secure: bool) -> Srv {
        let s = NetcodeServer::new(ServerConfig {
            current_time: now,
            max_clients,
            protocol_id,
            public_addresses: addrs.clone(),
            authentication: if secure {
                ServerAuthentication::Secure { private_key: key }
            } else {
                ServerAuthentication::Unsecure
            },
        });
        Srv {
            s,
            protocol_id,
            key: if secure { key } else { [0u8; 32] },
            addrs,
            now,
            secure,
        }
    }

    pub fn process(&mut self, from: SocketAddr, bytes: &[u8]) -> SResult {
        let mut buf = bytes.to_vec();
        SResult::from(self.s.process_packet(from, &mut buf))
    }

    pub fn update(&mut self, dt: Duration) {
        self.now += dt;
        self.s.update(dt);
    }

    pub fn update_client(&mut self, id: u64) -> SResult {
        SResult::from(self.s.update_client(id))
    }

    pub fn disconnect(&mut self, id: u64) -> SResult {
        SResult::from(self.s.disconnect(id))
    }

    pub fn payload_for(&mut self, id: u64, payload: &[u8]) -> Result<(SocketAddr, Vec<u8>), String> {
        match self.s.generate_payload_packet(id, payload) {
            Ok((a, b)) => Ok((a, b.to_vec())),
            Err(e) => Err(format!("{:?}", e)),
        }
    }

    pub fn snapshot(&self) -> SrvSnap {
        let mut ids = self.s.clients_id();
        ids.sort_unstable();
        let clients = ids
            .iter()
            .map(|id| {
                (
                    *id,
                    self.s.client_addr(*id),
                    self.s.user_data(*id).map(|u| crate::rng::fnv1a(&u)),
                    self.s.time_since_last_received_packet(*id),
                )
            })
            .collect();
        let mut pending = self.s.verif_pending();
        pending.sort();
        SrvSnap {
            clients,
            pending,
            connected: self.s.connected_clients(),
            max_clients: self.s.max_clients(),
        }
    }
}

/// Everything observable about a server that a non-authentic datagram must not change.
#[derive(Clone, Debug, PartialEq, Eq)]
pub struct SrvSnap {
    pub clients: Vec<(u64, Option<SocketAddr>, Option<u64>, Option<Duration>)>,
    pub pending: Vec<(SocketAddr, u64)>,
    pub connected: usize,
    pub max_clients: usize,
}

impl SrvSnap {
    /// Names the first observable that differs (for signatures).
    pub fn diff(&self, other: &SrvSnap) -> Option<&'static str> {
        if self.clients.iter().map(|c| c.0).collect::<Vec<_>>() != other.clients.iter().map(|c| c.0).collect::<Vec<_>>() {
            return Some("client-set");
        }
        for (a, b) in self.clients.iter().zip(other.clients.iter()) {
            if a.1 != b.1 {
                return Some("client-addr");
            }
            if a.2 != b.2 {
                return Some("user-data");
            }
            if a.3 != b.3 {
                return Some("timeout-refreshed");
            }
        }
        if self.pending != other.pending {
            return Some("pending-set");
        }
        if self.connected != other.connected {
            return Some("connected-count");
        }
        if self.max_clients != other.max_clients {
            return Some("max-clients");
        }
        None
    }
}

pub struct Cli {
    pub c: NetcodeClient,
    pub minted: Minted,
    pub addr: SocketAddr,
}

#[derive(Clone, Debug, PartialEq, Eq)]
pub struct CliSnap {
    pub connecting: bool,
    pub connected: bool,
    pub disconnected: bool,
    pub reason: Option<renetcode::DisconnectReason>,
    pub since_last: Duration,
    pub server_addr: SocketAddr,
}

impl CliSnap {
    pub fn diff(&self, o: &CliSnap) -> Option<&'static str> {
        if self.connecting != o.connecting || self.connected != o.connected || self.disconnected != o.disconnected {
            return Some("state");
        }
        if self.reason != o.reason {
            return Some("reason");
        }
        if self.since_last != o.since_last {
            return Some("timeout-refreshed");
        }
        if self.server_addr != o.server_addr {
            return Some("server-addr");
        }
        None
    }
}

impl Cli {
    pub fn new(now: Duration, minted: Minted, addr: SocketAddr) -> Result<Cli, String> {
        let c = NetcodeClient::new(
            now,
            ClientAuthentication::Secure {
                connect_token: minted.token.clone(),
            },
        )
        .map_err(|e| format!("{:?}", e))?;
        Ok(Cli { c, minted, addr })
    }

    pub fn update(&mut self, dt: Duration) -> Option<(Vec<u8>, SocketAddr)> {
        self.c.update(dt).map(|(b, a)| (b.to_vec(), a))
    }

    pub fn process(&mut self, bytes: &[u8]) -> Option<Vec<u8>> {
        let mut buf = bytes.to_vec();
        self.c.process_packet(&mut buf).map(|p| p.to_vec())
    }

    pub fn payload(&mut self, payload: &[u8]) -> Result<(SocketAddr, Vec<u8>), String> {
        match self.c.generate_payload_packet(payload) {
            Ok((a, b)) => Ok((a, b.to_vec())),
            Err(e) => Err(format!("{:?}", e)),
        }
    }

    pub fn disconnect(&mut self) -> Result<(SocketAddr, Vec<u8>), String> {
        match self.c.disconnect() {
            Ok((a, b)) => Ok((a, b.to_vec())),
            Err(e) => Err(format!("{:?}", e)),
        }
    }

    pub fn snapshot(&self) -> CliSnap {
        CliSnap {
            connecting: self.c.is_connecting(),
            connected: self.c.is_connected(),
            disconnected: self.c.is_disconnected(),
            reason: self.c.disconnect_reason(),
            since_last: self.c.time_since_last_received_packet(),
            server_addr: self.c.server_addr(),
        }
    }
}

/// Drives an honest handshake to completion over a perfect link. Returns every datagram exchanged
/// as (from_client, bytes) in order, or Err if the pair did not connect within `max_steps`.
pub fn handshake(srv: &mut Srv, cli: &mut Cli, dt: Duration, max_steps: usize) -> Result<Vec<(bool, Vec<u8>)>, String> {
    let mut wire = Vec::new();
    for _ in 0..max_steps {
        srv.update(dt);
        if let Some((b, to)) = cli.update(dt) {
            wire.push((true, b.clone()));
            if srv.addrs.contains(&to) {
                let r = srv.process(cli.addr, &b);
                if let Some((dst, out)) = r.outgoing() {
                    if dst == cli.addr {
                        wire.push((false, out.clone()));
                        cli.process(out);
                    }
                }
            }
        }
        let id = cli.minted.token.client_id;
        if let SResult::Send { addr, bytes } = srv.update_client(id) {
            if addr == cli.addr {
                wire.push((false, bytes.clone()));
                cli.process(&bytes);
            }
        }
        if cli.c.is_connected() && srv.s.is_client_connected(id) {
            return Ok(wire);
        }
        if cli.c.is_disconnected() {
            return Err(format!("client disconnected: {:?}", cli.c.disconnect_reason()));
        }
    }
    Err("handshake did not complete".into())
}


// ------------------------------------------------------------------------------------------
// Independent reference for the AEAD framing of sealed datagrams (netcode 1.02 wire standard):
// ChaCha20-Poly1305, nonce = 4 zero bytes || 8-byte little-endian sequence, associated data =
// version info (13) || protocol id (8, LE) || prefix byte. Uses the cipher crate directly, not
// the library's crypto module, so that the nonce the library really used can be established.
// ------------------------------------------------------------------------------------------

/// Tries to open the sealed body of `bytes` under `key` with the nonce that the standard derives from
/// `nonce_sequence` (which need not be the sequence announced in the datagram). Returns the plaintext body.
pub fn ref_open_with_nonce(bytes: &[u8], protocol_id: u64, key: &[u8; 32], nonce_sequence: u64) -> Option<Vec<u8>> {
    use chacha20poly1305::{AeadInPlace, ChaCha20Poly1305, Key, KeyInit, Nonce, Tag};
    let prefix = *bytes.first()?;
    if prefix_type(prefix) == 0 {
        return None;
    }
    let n = prefix_seq_len(prefix);
    if n > 8 || bytes.len() < 1 + n + 16 {
        return None;
    }
    let mut aad = [0u8; 22];
    aad[..13].copy_from_slice(b"NETCODE 1.02\0");
    aad[13..21].copy_from_slice(&protocol_id.to_le_bytes());
    aad[21] = prefix;
    let body = &bytes[1 + n..];
    let (ct, tag) = body.split_at(body.len() - 16);
    let mut buf = ct.to_vec();
    let mut nonce = [0u8; 12];
    nonce[4..12].copy_from_slice(&nonce_sequence.to_le_bytes());
    let cipher = ChaCha20Poly1305::new(Key::from_slice(key));
    cipher.decrypt_in_place_detached(&Nonce::from(nonce), &aad, &mut buf, Tag::from_slice(tag)).ok()?;
    Some(buf)
}

/// Opens under the nonce of the datagram's own announced sequence.
pub fn ref_open(bytes: &[u8], protocol_id: u64, key: &[u8; 32]) -> Option<Vec<u8>> {
    ref_open_with_nonce(bytes, protocol_id, key, wire_sequence(bytes)?)
}
