//! Run context, verdict accumulation, known-findings discipline, evidence fragments.

use serde_json::{json, Map, Value};
use std::collections::{BTreeMap, BTreeSet, HashSet};
use std::time::Instant;

#[derive(Clone, Copy, Debug, PartialEq, Eq)]
pub enum Tier {
    Quick,
    Thorough,
}

impl Tier {
    pub fn name(&self) -> &'static str {
        match self {
            Tier::Quick => "quick",
            Tier::Thorough => "thorough",
        }
    }
}

#[derive(Clone, Debug)]
pub struct Ctx {
    pub prop: String,
    pub tier: Tier,
    pub seed: u64,
    pub shard: usize,
    pub nshards: usize,
    pub engine: String,
    /// scale factor in percent applied to run counts (VERIF_SCALE, default 100)
    pub scale: u64,
    pub known: KnownFindings,
    pub started: Instant,
    /// soft wall-clock budget in seconds for this shard (workloads stop generating when exceeded)
    pub soft_budget_s: u64,
    /// `--replay`: re-run only the execution with this run seed (and mode)
    pub replay_seed: Option<u64>,
    pub replay_mode: Option<String>,
}

impl Ctx {
    /// Number of executions this shard should perform given totals for each tier.
    pub fn runs(&self, quick_total: u64, thorough_total: u64) -> u64 {
        if let Some(n) = std::env::var("VERIF_RUNS_PER_SHARD").ok().and_then(|v| v.parse::<u64>().ok()) {
            return n.max(1);
        }
        let total = match self.tier {
            Tier::Quick => quick_total,
            Tier::Thorough => thorough_total,
        };
        let total = (total * self.scale).div_ceil(100);
        let base = total / self.nshards as u64;
        let extra = if (self.shard as u64) < total % self.nshards as u64 { 1 } else { 0 };
        (base + extra).max(1)
    }

    pub fn thorough(&self) -> bool {
        self.tier == Tier::Thorough
    }

    pub fn shard_seed(&self, salt: u64) -> u64 {
        crate::rng::mix(&[self.seed, crate::rng::hash_str(&self.prop), self.shard as u64, salt])
    }

    pub fn over_budget(&self) -> bool {
        self.started.elapsed().as_secs() >= self.soft_budget_s
    }

    pub fn is_shipped(&self) -> bool {
        self.engine == "e2"
    }
}

#[derive(Clone, Debug, Default)]
pub struct KnownFindings {
    /// (property, signature) -> description, for `open:` entries only
    pub open: BTreeMap<(String, String), String>,
}

impl KnownFindings {
    pub fn load(path: &str) -> Self {
        let mut k = KnownFindings::default();
        let Ok(text) = std::fs::read_to_string(path) else {
            return k;
        };
        for line in text.lines() {
            let line = line.trim();
            if !line.starts_with("open:") {
                continue;
            }
            let rest = line["open:".len()..].trim();
            let mut prop = None;
            let mut sig = None;
            let mut desc_start = 0;
            let mut pos = 0;
            for tok in rest.split_whitespace() {
                let at = rest[pos..].find(tok).unwrap() + pos;
                pos = at + tok.len();
                if let Some(p) = tok.strip_prefix("property=") {
                    prop = Some(p.to_string());
                    desc_start = pos;
                } else if let Some(s) = tok.strip_prefix("sig=") {
                    sig = Some(s.to_string());
                    desc_start = pos;
                } else {
                    break;
                }
            }
            if let (Some(p), Some(s)) = (prop, sig) {
                k.open.insert((p, s), rest[desc_start..].trim().to_string());
            }
        }
        k
    }

    pub fn lookup(&self, prop: &str, sig: &str) -> Option<&String> {
        self.open.get(&(prop.to_string(), sig.to_string()))
    }
}

#[derive(Clone, Debug)]
pub struct Violation {
    pub sig: String,
    pub clause: String,
    pub detail: String,
    pub replay: Value,
}

/// Accumulates what one shard (or, after merging, one check) observed.
#[derive(Debug, Default)]
pub struct Outcome {
    pub evaluations: u64,
    pub distinct: HashSet<u64>,
    pub counters: BTreeMap<String, u64>,
    pub samples: Vec<Value>,
    pub violations: Vec<Violation>,
    pub violation_sigs: BTreeMap<String, u64>,
    pub known_hits: BTreeMap<String, (String, u64)>,
    pub inconclusive: Vec<String>,
    pub notes: BTreeSet<String>,
    pub exhaustive: Option<bool>,
    pub max_samples: usize,
}

impl Outcome {
    pub fn new() -> Self {
        Outcome {
            max_samples: 4,
            ..Default::default()
        }
    }

    pub fn count(&mut self, key: &str) {
        *self.counters.entry(key.to_string()).or_insert(0) += 1;
    }

    pub fn add(&mut self, key: &str, n: u64) {
        *self.counters.entry(key.to_string()).or_insert(0) += n;
    }

    pub fn max(&mut self, key: &str, v: u64) {
        let e = self.counters.entry(format!("max.{key}")).or_insert(0);
        if v > *e {
            *e = v;
        }
    }

    pub fn get(&self, key: &str) -> u64 {
        self.counters.get(key).copied().unwrap_or(0)
    }

    /// One execution finished; `fingerprint` identifies it, `nontrivial` says whether it
    /// satisfied the property's non-triviality rule.
    pub fn eval(&mut self, fingerprint: u64, nontrivial: bool) {
        self.evaluations += 1;
        if nontrivial {
            self.distinct.insert(fingerprint);
        }
    }

    pub fn sample(&mut self, v: Value) {
        if self.samples.len() < self.max_samples {
            self.samples.push(v);
        }
    }

    pub fn note(&mut self, s: &str) {
        self.notes.insert(s.to_string());
    }

    pub fn inconclusive(&mut self, reason: &str) {
        if self.inconclusive.len() < 20 {
            self.inconclusive.push(reason.to_string());
        }
    }

    /// Reports a refuted oracle. Returns true if it is an *unlisted* violation.
    pub fn violation(&mut self, ctx: &Ctx, sig: &str, clause: &str, detail: String, replay: Value) -> bool {
        if let Some(desc) = ctx.known.lookup(&ctx.prop, sig) {
            let e = self.known_hits.entry(sig.to_string()).or_insert((desc.clone(), 0));
            e.1 += 1;
            return false;
        }
        let n = self.violation_sigs.entry(sig.to_string()).or_insert(0);
        *n += 1;
        if *n <= 2 && self.violations.len() < 12 {
            self.violations.push(Violation {
                sig: sig.to_string(),
                clause: clause.to_string(),
                detail,
                replay,
            });
        }
        true
    }

    pub fn n_violations(&self) -> u64 {
        self.violation_sigs.values().sum()
    }

    /// Too many violations: stop exploring (the tree is broken, the witnesses are stored).
    pub fn should_stop(&self) -> bool {
        self.n_violations() >= 25
    }

    pub fn to_fragment(&self) -> Value {
        let mut distinct: Vec<u64> = self.distinct.iter().copied().collect();
        distinct.sort_unstable();
        // keep fragments small: beyond 200k hashes, keep count only (shards use distinct seeds)
        let (distinct_list, distinct_extra) = if distinct.len() > 200_000 {
            (Vec::new(), distinct.len() as u64)
        } else {
            (distinct.iter().map(|h| format!("{:x}", h)).collect::<Vec<_>>(), 0)
        };
        json!({
            "evaluations": self.evaluations,
            "distinct": distinct_list,
            "distinct_extra": distinct_extra,
            "counters": self.counters,
            "samples": self.samples,
            "violations": self.violations.iter().map(|v| json!({
                "sig": v.sig, "clause": v.clause, "detail": v.detail, "replay": v.replay
            })).collect::<Vec<_>>(),
            "violation_sigs": self.violation_sigs,
            "known_hits": self.known_hits.iter().map(|(k,(d,n))| (k.clone(), json!([d, n]))).collect::<Map<String,Value>>(),
            "inconclusive": self.inconclusive,
            "notes": self.notes.iter().collect::<Vec<_>>(),
            "exhaustive": self.exhaustive,
        })
    }

    pub fn merge_fragment(&mut self, f: &Value) -> u64 {
        let mut extra = 0;
        self.evaluations += f["evaluations"].as_u64().unwrap_or(0);
        if let Some(a) = f["distinct"].as_array() {
            for h in a {
                if let Some(s) = h.as_str() {
                    if let Ok(v) = u64::from_str_radix(s, 16) {
                        self.distinct.insert(v);
                    }
                }
            }
        }
        extra += f["distinct_extra"].as_u64().unwrap_or(0);
        if let Some(m) = f["counters"].as_object() {
            for (k, v) in m {
                let v = v.as_u64().unwrap_or(0);
                if k.starts_with("max.") {
                    let e = self.counters.entry(k.clone()).or_insert(0);
                    if v > *e {
                        *e = v;
                    }
                } else {
                    *self.counters.entry(k.clone()).or_insert(0) += v;
                }
            }
        }
        if let Some(a) = f["samples"].as_array() {
            for s in a {
                if self.samples.len() < self.max_samples.max(4) {
                    self.samples.push(s.clone());
                }
            }
        }
        if let Some(a) = f["violations"].as_array() {
            for v in a {
                if self.violations.len() < 12 {
                    self.violations.push(Violation {
                        sig: v["sig"].as_str().unwrap_or("").to_string(),
                        clause: v["clause"].as_str().unwrap_or("").to_string(),
                        detail: v["detail"].as_str().unwrap_or("").to_string(),
                        replay: v["replay"].clone(),
                    });
                }
            }
        }
        if let Some(m) = f["violation_sigs"].as_object() {
            for (k, v) in m {
                *self.violation_sigs.entry(k.clone()).or_insert(0) += v.as_u64().unwrap_or(0);
            }
        }
        if let Some(m) = f["known_hits"].as_object() {
            for (k, v) in m {
                let d = v[0].as_str().unwrap_or("").to_string();
                let n = v[1].as_u64().unwrap_or(0);
                let e = self.known_hits.entry(k.clone()).or_insert((d, 0));
                e.1 += n;
            }
        }
        if let Some(a) = f["inconclusive"].as_array() {
            for s in a {
                if let Some(s) = s.as_str() {
                    self.inconclusive(s);
                }
            }
        }
        if let Some(a) = f["notes"].as_array() {
            for s in a {
                if let Some(s) = s.as_str() {
                    self.notes.insert(s.to_string());
                }
            }
        }
        match (self.exhaustive, f["exhaustive"].as_bool()) {
            (None, x) => self.exhaustive = x,
            (Some(a), Some(b)) => self.exhaustive = Some(a && b),
            _ => {}
        }
        extra
    }
}

/// Per-property static description used by the driver.
pub struct PropInfo {
    pub id: &'static str,
    pub level: &'static str,
    pub rule: &'static str,
    pub assumptions: &'static [&'static str],
    /// counters that must reach the given minimum (summed over shards) or the run is inconclusive
    pub gates: &'static [(&'static str, u64)],
    /// engines used in the quick / thorough tier
    pub engines_quick: &'static [&'static str],
    pub engines_thorough: &'static [&'static str],
    pub run: fn(&Ctx, &mut Outcome),
}
