//! Guarded calls into the code under test: panic capture (with location, for signatures) and a
//! per-call wall-clock watchdog for the "returns normally" clauses (DESIGN 2.9).

use crate::outcome::Ctx;
use serde_json::json;
use std::any::Any;
use std::sync::atomic::{AtomicU64, Ordering};
use std::sync::Mutex;
use std::time::{SystemTime, UNIX_EPOCH};

static CALL_STARTED_MS: AtomicU64 = AtomicU64::new(0);
static CALL_INFO: Mutex<Option<(String, Vec<u8>)>> = Mutex::new(None);
static LAST_PANIC: Mutex<Option<(String, String)>> = Mutex::new(None);

pub const CALL_TIMEOUT_MS: u64 = 20_000;
/// CPU time this (single-threaded) process must have burnt while the call was in flight before the watchdog fires:
/// a call that is merely descheduled on a loaded machine is not a call that does not return.
pub const CALL_CPU_MIN_MS: u64 = 8_000;

/// user + system CPU time of this process in ms (from /proc/self/stat; USER_HZ = 100 on Linux).
fn process_cpu_ms() -> Option<u64> {
    let s = std::fs::read_to_string("/proc/self/stat").ok()?;
    let rest = &s[s.rfind(')')? + 1..];
    let f: Vec<&str> = rest.split_whitespace().collect();
    // rest starts at field 3 (state): utime is field 14, stime field 15
    let ut: u64 = f.get(11)?.parse().ok()?;
    let st: u64 = f.get(12)?.parse().ok()?;
    Some((ut + st) * 10)
}

fn now_ms() -> u64 {
    SystemTime::now().duration_since(UNIX_EPOCH).map(|d| d.as_millis() as u64).unwrap_or(0)
}

pub fn panic_message(e: &Box<dyn Any + Send>) -> String {
    if let Some(s) = e.downcast_ref::<&str>() {
        s.to_string()
    } else if let Some(s) = e.downcast_ref::<String>() {
        s.clone()
    } else {
        "non-string panic".to_string()
    }
}

/// Installs the quiet panic hook and the watchdog thread.
pub fn install(ctx: &Ctx, frag_path: &str) {
    std::panic::set_hook(Box::new(|info| {
        let loc = info.location().map(|l| l.file().to_string()).unwrap_or_default();
        let msg = if let Some(s) = info.payload().downcast_ref::<&str>() {
            s.to_string()
        } else if let Some(s) = info.payload().downcast_ref::<String>() {
            s.clone()
        } else {
            "panic".to_string()
        };
        if let Ok(mut g) = LAST_PANIC.lock() {
            *g = Some((loc, msg));
        }
    }));
    let frag = frag_path.to_string();
    let prop = ctx.prop.clone();
    let engine = ctx.engine.clone();
    let mut tracked: (u64, u64) = (0, 0); // (start stamp of the call being watched, process CPU ms when first seen)
    std::thread::spawn(move || loop {
        std::thread::sleep(std::time::Duration::from_millis(500));
        let started = CALL_STARTED_MS.load(Ordering::SeqCst);
        if started == 0 {
            tracked = (0, 0);
            continue;
        }
        if tracked.0 != started {
            tracked = (started, process_cpu_ms().unwrap_or(0));
            continue;
        }
        let burnt = process_cpu_ms().map(|c| c.saturating_sub(tracked.1));
        if now_ms().saturating_sub(started) > CALL_TIMEOUT_MS && burnt.map_or(true, |b| b >= CALL_CPU_MIN_MS) {
            let (label, input) = CALL_INFO.lock().ok().and_then(|g| g.clone()).unwrap_or_default();
            let v = json!({
                "evaluations": 1,
                "distinct": [], "distinct_extra": 0, "counters": {"watchdog_fired": 1}, "samples": [],
                "violations": [{
                    "sig": format!("{}/non-return/{}", prop, label),
                    "clause": "the call returns normally",
                    "detail": format!("call '{}' did not return within {} s of wall time while this process burnt {:?} ms of CPU time (a normal call takes microseconds)", label, CALL_TIMEOUT_MS / 1000, burnt),
                    "replay": {"property": prop, "engine": engine, "mode": "single-input", "label": label, "input_hex": crate::rng::hex(&input)}
                }],
                "violation_sigs": {format!("{}/non-return/{}", prop, label): 1},
                "known_hits": {}, "inconclusive": [], "notes": [], "exhaustive": null
            });
            let _ = std::fs::write(&frag, serde_json::to_string(&v).unwrap());
            std::process::exit(0);
        }
    });
}

/// Panic classification: (source file without directories, message class without numbers).
pub fn classify_panic(loc: &str, msg: &str) -> String {
    let file = loc.rsplit('/').next().unwrap_or(loc);
    let crate_dir = if loc.contains("renetcode") {
        "renetcode"
    } else if loc.contains("renet_netcode") {
        "renet_netcode"
    } else if loc.contains("/renet/") || loc.starts_with("renet/") {
        "renet"
    } else {
        "dep"
    };
    let mut class = String::new();
    let mut last_was_digit = false;
    for ch in msg.chars() {
        if ch.is_ascii_digit() {
            if !last_was_digit {
                class.push('N');
            }
            last_was_digit = true;
        } else {
            last_was_digit = false;
            if ch.is_ascii_alphanumeric() {
                class.push(ch);
            } else if !class.ends_with('-') {
                class.push('-');
            }
        }
    }
    let class: String = class.trim_matches('-').chars().take(60).collect();
    format!("{}:{}:{}", crate_dir, file, class)
}

pub struct Caught {
    pub loc: String,
    pub msg: String,
    pub class: String,
}

/// Runs `f` (a call into the code under test) with panic capture and the per-call watchdog.
pub fn guarded<R>(label: &str, input: &[u8], f: impl FnOnce() -> R) -> Result<R, Caught> {
    if let Ok(mut g) = CALL_INFO.lock() {
        match g.as_mut() {
            Some((l, i)) => {
                if l != label {
                    l.clear();
                    l.push_str(label);
                }
                i.clear();
                i.extend_from_slice(input);
            }
            None => *g = Some((label.to_string(), input.to_vec())),
        }
    }
    CALL_STARTED_MS.store(now_ms().max(1), Ordering::SeqCst);
    let res = std::panic::catch_unwind(std::panic::AssertUnwindSafe(f));
    CALL_STARTED_MS.store(0, Ordering::SeqCst);
    match res {
        Ok(r) => Ok(r),
        Err(e) => {
            let (loc, msg) = LAST_PANIC.lock().ok().and_then(|mut g| g.take()).unwrap_or((String::new(), panic_message(&e)));
            let class = classify_panic(&loc, &msg);
            Err(Caught { loc, msg, class })
        }
    }
}

/// Cheaper variant without the watchdog bookkeeping (panic capture only).
pub fn catch<R>(f: impl FnOnce() -> R) -> Result<R, Caught> {
    match std::panic::catch_unwind(std::panic::AssertUnwindSafe(f)) {
        Ok(r) => Ok(r),
        Err(e) => {
            let (loc, msg) = LAST_PANIC.lock().ok().and_then(|mut g| g.take()).unwrap_or((String::new(), panic_message(&e)));
            let class = classify_panic(&loc, &msg);
            Err(Caught { loc, msg, class })
        }
    }
}
