pub mod alloc;
pub mod link;
pub mod nsim;
pub mod oracles;
pub mod outcome;
pub mod payload;
pub mod rng;
pub mod rsim;
pub mod traffic;
pub mod watchdog;
pub mod props;

/// A logger that formats every record into a scratch buffer and drops it: with it installed the arguments of the
/// library's log statements are evaluated, as they are in an application that logs.
struct SinkLogger;

impl log::Log for SinkLogger {
    fn enabled(&self, _: &log::Metadata) -> bool {
        true
    }
    fn log(&self, record: &log::Record) {
        use std::fmt::Write;
        thread_local!(static BUF: std::cell::RefCell<String> = std::cell::RefCell::new(String::new()));
        BUF.with(|b| {
            if let Ok(mut b) = b.try_borrow_mut() {
                b.clear();
                let _ = write!(b, "{}", record.args());
            }
        });
    }
    fn flush(&self) {}
}

pub fn install_sink_logger() {
    static LOGGER: SinkLogger = SinkLogger;
    if log::set_logger(&LOGGER).is_ok() {
        log::set_max_level(log::LevelFilter::Trace);
    }
}
