//! rv — runtime-verification driver.
//!
//!   rv <Cxx> [--tier quick|thorough] [--seed N] [--shards N] [--engine e1|e2|e3]
//!   rv <Cxx> --shard i/n --frag <file> ...      (internal: one shard, writes a fragment)
//!   rv <Cxx> --replay <file>                    (re-run the single execution of a witness)
//!
//! Exit codes: 0 held on everything explored; 1 VIOLATION; 3 INCONCLUSIVE.

use rv::outcome::{Ctx, KnownFindings, Outcome, PropInfo, Tier};
use serde_json::{json, Value};
use std::collections::BTreeMap;
use std::process::{Command, Stdio};
use std::time::Instant;

#[global_allocator]
static GLOBAL: rv::alloc::Counting = rv::alloc::Counting;

fn verif_root() -> String {
    std::env::var("RV_ROOT").unwrap_or_else(|_| "/verif".to_string())
}

fn arg_val(args: &[String], name: &str) -> Option<String> {
    args.iter().position(|a| a == name).and_then(|i| args.get(i + 1).cloned())
}

fn env_u64(name: &str) -> Option<u64> {
    std::env::var(name).ok().and_then(|v| v.trim().parse::<u64>().ok())
}

fn main() {
    rv::alloc::INSTALLED.store(1, std::sync::atomic::Ordering::Relaxed);
    let args: Vec<String> = std::env::args().collect();
    if args.len() < 2 {
        eprintln!("usage: rv <Cxx> [--tier quick|thorough] [--seed N] [--shards N] | --replay file");
        std::process::exit(2);
    }
    let prop = args[1].to_uppercase();
    let Some(info) = rv::props::find(&prop) else {
        eprintln!("unknown property {prop}");
        std::process::exit(2);
    };
    let tier = match arg_val(&args, "--tier").or_else(|| std::env::var("VERIF_TIER").ok()).as_deref() {
        Some("thorough") => Tier::Thorough,
        _ => Tier::Quick,
    };
    let seed = arg_val(&args, "--seed").and_then(|s| s.parse().ok()).or_else(|| env_u64("VERIF_SEED")).unwrap_or(1);
    let engine = arg_val(&args, "--engine").unwrap_or_else(|| "e1".to_string());
    let scale = env_u64("VERIF_SCALE").unwrap_or(100);
    let known = KnownFindings::load(&format!("{}/KNOWN_FINDINGS.txt", verif_root()));

    if let Some(t) = arg_val(&args, "--engines") {
        let e = if t == "thorough" { info.engines_thorough } else { info.engines_quick };
        println!("{}", e.join(" "));
        return;
    }

    if let Some(path) = arg_val(&args, "--replay") {
        std::process::exit(replay(info, &path, known));
    }

    if let Some(sh) = arg_val(&args, "--shard") {
        // child mode
        let mut it = sh.split('/');
        let shard: usize = it.next().unwrap().parse().unwrap();
        let nshards: usize = it.next().unwrap().parse().unwrap();
        let frag = arg_val(&args, "--frag").expect("--frag");
        let ctx = Ctx {
            prop: prop.clone(),
            tier,
            seed,
            shard,
            nshards,
            engine: engine.clone(),
            scale,
            known,
            started: Instant::now(),
            soft_budget_s: env_u64("VERIF_SOFT_BUDGET_S").unwrap_or(if tier == Tier::Quick { 120 } else { 3000 }),
            replay_seed: None,
            replay_mode: None,
        };
        rv::watchdog::install(&ctx, &frag);
        // applications run with a logger: in every third shard every log statement of the crates is formatted (and
        // thrown away), so that what a log line evaluates is executed as well
        if shard % 3 == 0 {
            rv::install_sink_logger();
        }
        let mut out = Outcome::new();
        let res = std::panic::catch_unwind(std::panic::AssertUnwindSafe(|| {
            (info.run)(&ctx, &mut out);
        }));
        if let Err(e) = res {
            let msg = rv::watchdog::panic_message(&e);
            out.inconclusive(&format!("harness panic outside a guarded call: {msg}"));
        }
        std::fs::write(&frag, serde_json::to_string(&out.to_fragment()).unwrap()).expect("write fragment");
        std::process::exit(0);
    }

    // parent mode: fan out
    let t0 = Instant::now();
    let engines: Vec<String> = match arg_val(&args, "--engine") {
        Some(e) => vec![e],
        None => (if tier == Tier::Quick { info.engines_quick } else { info.engines_thorough })
            .iter()
            .map(|s| s.to_string())
            .collect(),
    };
    let nshards: usize = arg_val(&args, "--shards")
        .and_then(|s| s.parse().ok())
        .or_else(|| env_u64("VERIF_SHARDS").map(|v| v as usize))
        .unwrap_or(if tier == Tier::Quick { 8 } else { 16 });
    let tmpdir = format!("{}/tmp/{}-{}-{}", verif_root(), prop, tier.name(), std::process::id());
    std::fs::create_dir_all(&tmpdir).ok();
    let mut merged = Outcome::new();
    let mut distinct_extra = 0u64;
    let mut engines_run = Vec::new();
    let mut per_engine: BTreeMap<String, Value> = BTreeMap::new();
    for eng in engines.iter() {
        let exe = engine_exe(eng);
        if !std::path::Path::new(&exe).exists() {
            merged.inconclusive(&format!("engine {eng} binary missing: {exe}"));
            continue;
        }
        engines_run.push(eng.clone());
        let mut children = Vec::new();
        // Miri (e4): 16 processes, each doing 1/256 of the enumerations and a fixed small number of runs
        let (procs, denom) = if eng == "e4" { (16usize, 256usize) } else { (nshards, nshards) };
        for i in 0..procs {
            let frag = format!("{tmpdir}/{eng}-{i}.frag.json");
            let mut cmd = Command::new(&exe);
            cmd.arg(&prop)
                .arg("--tier")
                .arg(tier.name())
                .arg("--seed")
                .arg(seed.to_string())
                .arg("--engine")
                .arg(eng)
                .arg("--shard")
                .arg(format!("{i}/{denom}"))
                .arg("--frag")
                .arg(&frag)
                .stdout(Stdio::null())
                .stderr(Stdio::piped());
            if eng == "e4" {
                cmd.env("VERIF_RUNS_PER_SHARD", std::env::var("VERIF_MIRI_RUNS").unwrap_or_else(|_| "24".to_string()));
                cmd.env("VERIF_SOFT_BUDGET_S", "420");
            }
            if eng == "e3" {
                // AddressSanitizer is ~4x slower: a quarter of the executions
                cmd.env("VERIF_SCALE", (scale / 4).max(1).to_string());
                cmd.env("ASAN_OPTIONS", "halt_on_error=1:abort_on_error=0:detect_leaks=0:max_allocation_size_mb=2048:exitcode=77");
            }
            match cmd.spawn() {
                Ok(c) => children.push((i, frag, c)),
                Err(e) => merged.inconclusive(&format!("cannot spawn shard {i} of {eng}: {e}")),
            }
        }
        let mut e_evals = 0u64;
        for (i, frag, c) in children {
            let outp = c.wait_with_output();
            let (status, stderr) = match outp {
                Ok(o) => (o.status, String::from_utf8_lossy(&o.stderr).to_string()),
                Err(e) => {
                    merged.inconclusive(&format!("shard {i} of {eng}: wait failed: {e}"));
                    continue;
                }
            };
            match std::fs::read_to_string(&frag).ok().and_then(|s| serde_json::from_str::<Value>(&s).ok()) {
                Some(mut v) => {
                    e_evals += v["evaluations"].as_u64().unwrap_or(0);
                    if eng == "e4" {
                        // Miri shards cover a sample of the enumerated sub-spaces only
                        v["exhaustive"] = Value::Null;
                        if v["violations"].as_array().map_or(false, |a| !a.is_empty()) {
                            merged.note("violations reported by the Miri engine (e4)");
                        }
                    }
                    distinct_extra += merged.merge_fragment(&v);
                }
                None => {
                    let tail: String = stderr.lines().rev().take(6).collect::<Vec<_>>().into_iter().rev().collect::<Vec<_>>().join(" | ");
                    if eng == "e4" && stderr.contains("Undefined Behavior") {
                        let path = format!("{}/replays/{}-miri-{}-{}.txt", verif_root(), prop, seed, i);
                        std::fs::create_dir_all(format!("{}/replays", verif_root())).ok();
                        std::fs::write(&path, &stderr).ok();
                        let ctxv = json!({"engine": "e4", "seed": seed, "shard": format!("{i}/{denom}"), "stderr_file": path});
                        let dummy = dummy_ctx(&prop, tier, seed, eng);
                        let first = stderr.lines().find(|l| l.contains("Undefined Behavior")).unwrap_or("").to_string();
                        merged.violation(&dummy, &format!("{}/miri-undefined-behaviour", prop), "no undefined behaviour on the explored inputs", first, ctxv);
                    } else if eng == "e3" && status.code() == Some(77) {
                        // AddressSanitizer report: a memory error inside the code under test
                        let path = format!("{}/replays/{}-asan-{}-{}.txt", verif_root(), prop, seed, i);
                        std::fs::create_dir_all(format!("{}/replays", verif_root())).ok();
                        std::fs::write(&path, &stderr).ok();
                        let ctxv = json!({"engine": "e3", "seed": seed, "shard": i, "stderr_file": path});
                        let dummy = dummy_ctx(&prop, tier, seed, eng);
                        merged.violation(&dummy, &format!("{}/asan-report", prop), "memory safety on hostile input", tail.clone(), ctxv);
                    } else {
                        merged.inconclusive(&format!("shard {i} of {eng} died without a fragment (status {:?}): {}", status.code(), tail));
                    }
                }
            }
        }
        per_engine.insert(eng.clone(), json!({"evaluations": e_evals, "shards": nshards}));
    }
    std::fs::remove_dir_all(&tmpdir).ok();

    // coverage gates
    for (k, min) in info.gates.iter() {
        let scaled_min = if scale < 100 { 1.min(*min) } else { *min };
        if merged.get(k) < scaled_min && merged.n_violations() == 0 {
            merged.inconclusive(&format!("coverage gate not met: {} = {} < {}", k, merged.get(k), scaled_min));
        }
    }

    // witnesses
    std::fs::create_dir_all(format!("{}/replays", verif_root())).ok();
    let mut lines = Vec::new();
    for (n, v) in merged.violations.iter().enumerate() {
        let path = format!("{}/replays/{}-{}-{}.json", verif_root(), prop, seed, n);
        let mut r = v.replay.clone();
        if let Some(o) = r.as_object_mut() {
            o.insert("signature".into(), json!(v.sig));
            o.insert("detail".into(), json!(v.detail));
            o.insert("clause".into(), json!(v.clause));
            o.entry("property").or_insert(json!(prop));
        }
        std::fs::write(&path, serde_json::to_string_pretty(&r).unwrap()).ok();
        lines.push(format!("VIOLATION property={} replay={}", prop, path));
        eprintln!("  [{}] {} :: {}", v.sig, v.clause, v.detail);
    }
    for (sig, (desc, n)) in merged.known_hits.iter() {
        println!("KNOWN-FINDING: property={} sig={} {} (seen {}x)", prop, sig, desc, n);
    }

    let distinct = merged.distinct.len() as u64 + distinct_extra;
    let wall = t0.elapsed().as_secs_f64();
    let verdict = if !merged.violations.is_empty() || merged.n_violations() > 0 {
        "violated"
    } else if !merged.inconclusive.is_empty() {
        "inconclusive"
    } else {
        "held"
    };
    let mut coverage = json!({
        "evaluations": merged.evaluations,
        "distinct_nontrivial": distinct,
        "rule": info.rule,
        "samples": merged.samples,
        "observed": merged.counters,
        "engines": engines_run,
        "per_engine": per_engine,
        "shards": nshards,
        "verdict": verdict,
        "known_findings_hit": merged.known_hits.iter().map(|(k,(d,n))| json!({"sig": k, "what": d, "count": n})).collect::<Vec<_>>(),
        "violation_signatures": merged.violation_sigs,
        "inconclusive_reasons": merged.inconclusive,
        "notes": merged.notes.iter().collect::<Vec<_>>(),
        "gates": info.gates.iter().map(|(k, m)| json!({"counter": k, "min": m, "seen": merged.get(k)})).collect::<Vec<_>>(),
    });
    if let Some(e) = merged.exhaustive {
        coverage["exhaustive"] = json!(e);
    }
    let evidence = json!({
        "property_id": prop,
        "tier": tier.name(),
        "seed": seed,
        "level": info.level,
        "coverage": coverage,
        "assumptions": info.assumptions,
        "wall_s": (wall * 100.0).round() / 100.0,
        "violations": merged.n_violations(),
    });
    std::fs::create_dir_all(format!("{}/evidence", verif_root())).ok();
    std::fs::write(format!("{}/evidence/{}.json", verif_root(), prop), serde_json::to_string_pretty(&evidence).unwrap()).expect("write evidence");

    println!(
        "{} {} seed={} engines={:?} evaluations={} distinct_nontrivial={} violations={} known={} wall={:.1}s verdict={}",
        prop,
        tier.name(),
        seed,
        engines_run,
        merged.evaluations,
        distinct,
        merged.n_violations(),
        merged.known_hits.len(),
        wall,
        verdict
    );
    if verdict == "violated" {
        for l in lines {
            println!("{l}");
        }
        std::process::exit(1);
    }
    if verdict == "inconclusive" {
        for r in merged.inconclusive.iter() {
            println!("INCONCLUSIVE property={} reason={}", prop, r);
        }
        std::process::exit(3);
    }
    std::process::exit(0);
}

fn dummy_ctx(prop: &str, tier: Tier, seed: u64, eng: &str) -> Ctx {
    Ctx {
        prop: prop.to_string(),
        tier,
        seed,
        shard: 0,
        nshards: 1,
        engine: eng.to_string(),
        scale: 100,
        known: KnownFindings::load(&format!("{}/KNOWN_FINDINGS.txt", verif_root())),
        started: Instant::now(),
        soft_budget_s: 0,
        replay_seed: None,
        replay_mode: None,
    }
}

fn engine_exe(eng: &str) -> String {
    match eng {
        "e2" => format!("{}/harness/target/shipped/rv", verif_root()),
        "e3" => format!("{}/harness/target-asan/x86_64-unknown-linux-gnu/release/rv", verif_root()),
        "e4" => format!("{}/harness/miri_shard.sh", verif_root()),
        _ => format!("{}/harness/target/release/rv", verif_root()),
    }
}

fn replay(info: &PropInfo, path: &str, known: KnownFindings) -> i32 {
    let Ok(text) = std::fs::read_to_string(path) else {
        eprintln!("cannot read {path}");
        return 2;
    };
    let Ok(v) = serde_json::from_str::<Value>(&text) else {
        eprintln!("cannot parse {path}");
        return 2;
    };
    // a replay always runs with the logger: a violation that only shows when log statements are evaluated replays too
    rv::install_sink_logger();
    let seed_s = v["run_seed"].as_str().unwrap_or("0x0").trim_start_matches("0x").to_string();
    let run_seed = u64::from_str_radix(&seed_s, 16).unwrap_or(0);
    let ctx = Ctx {
        prop: info.id.to_string(),
        tier: Tier::Quick,
        seed: run_seed,
        shard: 0,
        nshards: 1,
        engine: v["engine"].as_str().unwrap_or("e1").to_string(),
        scale: 100,
        known,
        started: Instant::now(),
        soft_budget_s: 600,
        replay_seed: Some(run_seed),
        replay_mode: v["mode"].as_str().map(|s| s.to_string()),
    };
    let mut out = Outcome::new();
    rv::watchdog::install(&ctx, "/dev/null");
    (info.run)(&ctx, &mut out);
    for (sig, (desc, n)) in out.known_hits.iter() {
        println!("KNOWN-FINDING: property={} sig={} {} (seen {}x)", info.id, sig, desc, n);
    }
    if out.n_violations() > 0 {
        for vi in out.violations.iter() {
            eprintln!("  [{}] {} :: {}", vi.sig, vi.clause, vi.detail);
        }
        println!("VIOLATION property={} replay={}", info.id, path);
        1
    } else {
        println!("{} replay: no violation on the current tree", info.id);
        0
    }
}
