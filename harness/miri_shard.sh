#!/bin/bash
# Engine e4: runs one rv shard under Miri (undefined-behaviour interpreter). Called by the rv parent
# with the normal child arguments. Small workloads only: Miri is ~10^3-10^4 times slower.
cd /verif/harness || exit 2
export MIRIFLAGS="-Zmiri-disable-isolation ${MIRIFLAGS_EXTRA:-}"
export CARGO_NET_OFFLINE=true
exec cargo +nightly miri run --offline -q --target-dir target-miri -- "$@"
