#!/bin/bash
# tools/seed_verify.sh <Cxx> [<check ids to run>...]
# Verifies a seeded change delivered under /tmp/seed_<Cxx>/out (patch.diff, demo.rs, meta.json):
#   1. baseline tests of the three crates pass with the change,
#   2. the demo fails with the change and passes without it,
#   3. runs the named checks (default: the property itself) against the change via tools/selftest.sh.
# Stores everything under /verif/seeded/<Cxx>/ and prints a summary.
set -u
id="$1"; shift
checks="${*:-$id}"
# SEED_ROUND=2: second, independent round (different change per property): /tmp/seed2_<id> -> seeded/<id>b
r="${SEED_ROUND:-1}"; suf=("" "" b c d e f g h i j k l m n o p q r s); if [ "$r" = "1" ]; then src=/tmp/seed_$id/out; else src=/tmp/seed${r}_$id/out; fi; dst=/verif/seeded/${id}${suf[$r]}
W=/tmp/rv_seedcheck_${SEED_ROUND:-1}_$id
[ -f $src/patch.diff ] || { echo "no patch for $id"; exit 2; }
mkdir -p $dst && cp $src/* $dst/ 2>/dev/null
rm -rf $W; mkdir -p $W
git -C /repo worktree add -q --detach $W/repo HEAD || exit 2
cp /repo/Cargo.lock $W/repo/
export CARGO_TARGET_DIR=$W/target
cd $W/repo
# where does the demo go?
crate=renet
grep -q "renetcode" $src/demo.rs 2>/dev/null && ! grep -q "use renet::" $src/demo.rs && crate=renetcode
grep -q "renet_netcode" $src/demo.rs 2>/dev/null && crate=renet_netcode
feat=""; case $crate in renet|renetcode) feat="--features verif_hooks";; esac
mkdir -p $crate/tests
demo_ok_clean=unknown; demo_fails_mut=unknown; tests_pass=unknown
if [ -f $src/demo_patch.diff ]; then git apply $src/demo_patch.diff || echo "demo_patch does not apply"; else cp $src/demo.rs $crate/tests/seeded_demo.rs; fi
if cargo test -p $crate $feat --offline --test seeded_demo >$W/demo_clean.log 2>&1; then demo_ok_clean=yes; else demo_ok_clean=NO; fi
if git apply $src/patch.diff; then
  if cargo test -p $crate $feat --offline --test seeded_demo >$W/demo_mut.log 2>&1; then demo_fails_mut=NO; else demo_fails_mut=yes; fi
  rm -f $crate/tests/seeded_demo.rs
  if cargo test -p renet -p renetcode -p renet_netcode --offline >$W/tests_mut.log 2>&1; then tests_pass=yes; else tests_pass=NO; fi
else
  echo "patch does not apply"; 
fi
cd /verif
git -C /repo worktree remove --force $W/repo; rm -rf $W
unset CARGO_TARGET_DIR
det=$(RV_SELFTEST_DIR=/tmp/rv_selftest_${SEED_ROUND:-1}_$id tools/selftest.sh $dst/patch.diff $checks 2>&1 | grep SELFTEST)
echo "SEED $id: tests_pass_with_change=$tests_pass demo_passes_clean=$demo_ok_clean demo_fails_with_change=$demo_fails_mut"
echo "$det"
python3 - "$(basename $dst)" "$tests_pass" "$demo_ok_clean" "$demo_fails_mut" "$det" <<'PY'
import json,sys,os
id,tp,dc,dm,det=sys.argv[1:6]
p=f'/verif/seeded/{id}/meta.json'
try: m=json.load(open(p))
except Exception: m={}
m['verified_by_main']={'tests_pass_with_change':tp,'demo_passes_on_clean_tree':dc,'demo_fails_with_change':dm,
  'commands':['cargo test -p renet -p renetcode -p renet_netcode --offline (with patch)','cargo test --test seeded_demo (with / without patch)','tools/selftest.sh patch.diff <checks> (quick tier, seed 1)']}
m['detection']=[l.strip() for l in det.splitlines()]
json.dump(m,open(p,'w'),indent=1)
PY
