#!/usr/bin/env python3
"""tools/mkmutant.py <name> <file> <old> <new> [<file> <old> <new> ...]
Creates mutants/<name>.patch against /repo HEAD by textual replacement in a scratch worktree."""
import subprocess, sys, os, tempfile, shutil
name = sys.argv[1]
triples = sys.argv[2:]
assert len(triples) % 3 == 0
d = tempfile.mkdtemp(prefix="rv_mk_")
wt = os.path.join(d, "repo")
subprocess.check_call(["git", "-C", "/repo", "worktree", "add", "-q", "--detach", wt, "HEAD"])
try:
    for i in range(0, len(triples), 3):
        f, old, new = triples[i:i+3]
        p = os.path.join(wt, f)
        s = open(p).read()
        if s.count(old) != 1:
            print(f"ERROR: pattern occurs {s.count(old)} times in {f}: {old[:60]!r}"); sys.exit(1)
        open(p, "w").write(s.replace(old, new))
    diff = subprocess.check_output(["git", "-C", wt, "diff"]).decode()
    open(f"/verif/mutants/{name}.patch", "w").write(diff)
    print("wrote", name, len(diff.splitlines()), "lines")
finally:
    subprocess.call(["git", "-C", "/repo", "worktree", "remove", "--force", wt])
    shutil.rmtree(d, ignore_errors=True)
