#!/bin/bash
# tools/sweep.sh <tier> <seed> [props...]  — runs checks sequentially, one summary line each
tier="${1:-quick}"; seed="${2:-1}"; shift 2
props="${*:-C01 C02 C03 C04 C05 C06 C07 C08 C09 C10 C11 C12 C13 C14 C15 C16 C17 C18 C19 C20}"
cd /verif
for p in $props; do
  start=$(date +%s)
  out=$(VERIF_SEED=$seed ./check $p $tier 2>&1); code=$?
  echo "$(date +%H:%M:%S) $p $tier seed=$seed exit=$code $(( $(date +%s) - start ))s :: $(echo "$out" | grep -E "^$p " | tail -1)"
  [ $code -ne 0 ] && echo "$out" | grep -E "VIOLATION|INCONCLUSIVE|^\s+\[" | head -5
done
