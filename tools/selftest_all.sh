#!/bin/bash
# Runs every mutant of mutants/EXPECT.tsv (or those matching $1) against the checks named there.
# Output: mutants/RESULTS.txt (one line per mutant x property).
cd /verif
filter="${1:-.}"
out=mutants/RESULTS.txt
[ "$filter" = "." ] && : > $out
grep -v '^#' mutants/EXPECT.tsv | grep -E "$filter" | while IFS=$'\t' read -r name props; do
  [ -z "$name" ] && continue
  KEEP=1 tools/selftest.sh mutants/$name.patch $props 2>&1 | grep SELFTEST | tee -a $out
done
git -C /repo worktree remove --force /tmp/rv_selftest/repo 2>/dev/null; rm -rf /tmp/rv_selftest
echo "done: $(grep -c CAUGHT $out) caught, $(grep -c MISSED $out) missed"
