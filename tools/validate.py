#!/opt/veriftools/pyvenv/bin/python3
import json, jsonschema, sys, glob
jsonschema.validate(json.load(open('/verif/MANIFEST.json')), json.load(open('/root/.vp/MANIFEST.schema.json')))
es = json.load(open('/root/.vp/EVIDENCE.schema.json'))
for f in sorted(glob.glob('/verif/evidence/*.json')):
    try:
        jsonschema.validate(json.load(open(f)), es)
    except Exception as e:
        print("INVALID", f, str(e)[:300]); sys.exit(1)
print("manifest + evidence valid")
