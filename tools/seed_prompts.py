#!/usr/bin/env python3
"""tools/seed_prompts.py <round>  -> /tmp/seedprompts<round>/Cxx.txt and scratch worktrees /tmp/seed<round>_Cxx/repo.
Each prompt contains only the property text and the summaries of earlier independent attempts (so that the new change differs)."""
import json,sys,os,subprocess,glob
rnd=int(sys.argv[1]); out=f'/tmp/seedprompts{rnd}'; os.makedirs(out,exist_ok=True)
props=[json.loads(l) for l in open('/verif/properties.jsonl')]
tmpl=open('/verif/tools/seed_prompt.tmpl').read()
for p in props:
    pid=p['id']; prev=[]
    for d in sorted(glob.glob(f'/verif/seeded/{pid}*')):
        try: prev.append(json.load(open(d+'/meta.json'))['summary'][:700])
        except Exception: pass
    prevtxt='\n'.join(f'{i+1}. "{t}"' for i,t in enumerate(prev))
    anchors=', '.join(p['anchors']['files'])
    txt=tmpl.format(id=pid,title=p.get('title',''),statement=p.get('statement',''),quant=p['quantifier']['text'],
        files=anchors,nprev=len(prev),prev=prevtxt,ws=f'/tmp/seed{rnd}_{pid}')
    open(f'{out}/{pid}.txt','w').write(txt)
    ws=f'/tmp/seed{rnd}_{pid}'
    if not os.path.exists(ws+'/repo'):
        os.makedirs(ws+'/out',exist_ok=True)
        subprocess.check_call(['git','-C','/repo','worktree','add','-q','--detach',ws+'/repo','HEAD'])
        subprocess.check_call(['cp','/repo/Cargo.lock',ws+'/repo/'])
print('ok',out)
