#!/bin/bash
# tools/regress_all.sh [lanes]  — re-runs every mutant (mutants/EXPECT.tsv) and every seeded change (seeded/*/patch.diff,
# against the quick check of the property it was written for, or the checks listed for it in seeded/CAUGHT_BY.tsv) in parallel lanes, each lane with its own scratch
# worktree + harness copy under /tmp/rv_regress_<lane>. Results: mutants/RESULTS.txt and seeded/RESULTS.txt.
cd /verif
lanes="${1:-6}"
work=$(mktemp -d /tmp/rv_regress_jobs.XXXX)
grep -v '^#' mutants/EXPECT.tsv | while IFS=$'\t' read -r name props; do
  [ -z "$name" ] && continue
  echo "M|mutants/$name.patch|$props"
done > $work/jobs
for d in seeded/*/; do
  id=$(basename $d); prop=${id:0:3}
  other=$(grep -P "^$id\t" seeded/CAUGHT_BY.tsv 2>/dev/null | cut -f2)
  [ -n "$other" ] && prop="$other"
  echo "S|seeded/$id/patch.diff|$prop|$id"
done >> $work/jobs
total=$(wc -l < $work/jobs)
for l in $(seq 1 $lanes); do
  (
    awk -v l=$l -v n=$lanes 'NR % n == l % n' $work/jobs | while IFS='|' read -r kind patch props id; do
      res=$(RV_SELFTEST_DIR=/tmp/rv_regress_$l KEEP=1 tools/selftest.sh $patch $props 2>&1 | grep SELFTEST)
      if [ "$kind" = "M" ]; then echo "$res" >> $work/mut.$l; else echo "$res" | sed "s/^SELFTEST patch.diff/SELFTEST $id/" >> $work/seed.$l; fi
    done
    git -C /repo worktree remove --force /tmp/rv_regress_$l/repo 2>/dev/null; rm -rf /tmp/rv_regress_$l
  ) &
done
wait
cat $work/mut.* 2>/dev/null | sort > mutants/RESULTS.txt
cat $work/seed.* 2>/dev/null | sort > seeded/RESULTS.txt
rm -rf $work
git -C /repo worktree prune
echo "mutants: $(grep -c CAUGHT mutants/RESULTS.txt) caught, $(grep -c MISSED mutants/RESULTS.txt) missed; seeded: $(grep -c CAUGHT seeded/RESULTS.txt) caught, $(grep -c MISSED seeded/RESULTS.txt) missed (of $total jobs)"
