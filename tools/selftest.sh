#!/bin/bash
# tools/selftest.sh <patch-file> <Cxx> [<Cxx>...]   (env: TIER=quick|thorough, SEED=n, KEEP=1)
# Applies a property-breaking patch to a scratch worktree of /repo (HEAD), points a scratch copy of
# the harness at it, runs the named checks and reports whether each raised VIOLATION.
# Scratch lives under /tmp/rv_selftest and is removed afterwards unless KEEP=1.
set -u
patch="$(readlink -f "$1")"; shift
S="${RV_SELFTEST_DIR:-/tmp/rv_selftest}"
TIER="${TIER:-quick}"; SEED="${SEED:-1}"
if [ ! -d $S/repo ]; then
  mkdir -p $S
  git -C /repo worktree add -q --detach $S/repo HEAD || exit 2
  cp /repo/Cargo.lock $S/repo/Cargo.lock
fi
git -C $S/repo reset -q --hard && git -C $S/repo checkout -q --detach "$(git -C /repo rev-parse HEAD)" && git -C $S/repo checkout -q -- . 
mkdir -p $S/harness
rsync -a --delete --exclude 'target*' "${RV_HARNESS_SRC:-/verif/harness}/" $S/harness/
sed -i "s#/repo/#$S/repo/#g" $S/harness/Cargo.toml
cp /verif/KNOWN_FINDINGS.txt $S/
# seeds were written against earlier commits of /repo: fall back to a 3-way merge when the context has moved
if ! git -C $S/repo apply "$patch" 2>/dev/null; then
  if ! git -C $S/repo apply --3way "$patch" >/dev/null 2>&1; then echo "SELFTEST patch does not apply: $patch"; exit 2; fi
  git -C $S/repo reset -q
fi
# a failed build must never fall back to the binary of an earlier job
if ! ( cd $S/harness && cargo build --release --offline -q >$S/build.log 2>&1 && cargo build --profile shipped --offline -q >>$S/build.log 2>&1 ); then
  grep -E "^error" -A8 $S/build.log | head -30
  for p in "$@"; do echo "SELFTEST $(basename "$patch") $p: BUILD-FAILED (the change or the harness does not compile)"; done
  git -C $S/repo reset -q --hard
  exit 2
fi
rc=0
for p in "$@"; do
  out=$(cd $S/harness && RV_ROOT=$S VERIF_SEED=$SEED ./target/release/rv "$p" --tier "$TIER" 2>&1)
  code=$?
  sigs=$(echo "$out" | grep -E '^\s+\[' | sed -E 's/^\s+\[([^]]+)\].*/\1/' | sort -u | tr '\n' ' ')
  if [ $code -eq 1 ]; then echo "SELFTEST $(basename "$patch") $p: CAUGHT  sigs: $sigs"
  else echo "SELFTEST $(basename "$patch") $p: MISSED (exit $code) $(echo "$out" | tail -1)"; rc=1; fi
done
git -C $S/repo reset -q --hard
if [ "${KEEP:-0}" != "1" ]; then
  git -C /repo worktree remove --force $S/repo; rm -rf $S
fi
exit $rc
