#!/bin/bash
# tools/seed_round.sh <round> <Cxx>...   verifies several delivered seeds (5 at a time) and prints the summary lines
round="$1"; shift
cd /verif
n=0
for id in "$@"; do
  ( SEED_ROUND=$round tools/seed_verify.sh $id $id > /tmp/seedv${round}_$id.log 2>&1 ) &
  n=$((n+1))
  if [ $((n % 5)) -eq 0 ]; then wait; fi
done
wait
for id in "$@"; do grep -E "^SEED|SELFTEST" /tmp/seedv${round}_$id.log | cut -c1-260; done
