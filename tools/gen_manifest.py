#!/usr/bin/env python3
"""Generates /verif/MANIFEST.json from the table below (keeps it valid and consistent)."""
import json, subprocess, sys

HOOK_COMMITS = ["bcea3fd", "7f27ca7"]

# id -> (level category, level text, design ref, level note, technique)
CHECKS = {
 "C01": ("exploration",
   "Seeded randomized fault exploration of the real RenetClient/RenetServer pair over a simulated lossy link with a prefix oracle at the application boundary and a bounded-delivery deadline; held-on-K-executions, not a proof.",
   "DESIGN.md section 4 / C01",
   "Trusted: the harness link simulator and payload generator; liveness only in bounded form (deadline formula in evidence assumptions); budgets >= 2500 B/tick for the liveness clause.",
   "runtime monitoring: history + reference model (prefix cursor) over simulated fault schedules"),
 "C02": ("exploration",
   "Same driver as C01 on ReliableUnordered channels; oracle = multiset of outstanding unique payloads, wire-decoded completeness for the 'as soon as complete' clause, bounded-delivery deadline.",
   "DESIGN.md section 4 / C02",
   "Trusted: the crate's own packet decoder (hook re-export, itself checked by C16) used to know which slices reached the receiver.",
   "runtime monitoring: unique-payload history checker + wire-level completeness tracker"),
 "C03": ("exploration",
   "All channel kinds, boundary-weighted sizes, interleaved slices, several connections; every obtained message must be a byte-identical submission of the same (connection, direction, channel); unreliable delivery count bounded by delivered copies of the carrying packets.",
   "DESIGN.md section 4 / C03",
   "Messages shorter than 24 bytes are matched by content only; packet attribution uses the crate's decoder.",
   "runtime monitoring: self-describing payloads + per-packet delivery accounting"),
 "C13": ("exploration",
   "Sender stress with hook-seeded counter magnitudes and crafted incoming sequence patterns (1..>64 ack ranges, wide gaps), full simulated sessions including descending-arrival schedules, and netcode datagram size measurement for all packet kinds and sequence magnitudes; every produced packet is measured.",
   "DESIGN.md section 4 / C13",
   "Counter magnitudes are reached through the seeding hook; netcode sequence magnitudes through the crate's encoder.",
   "runtime monitoring: size / serialization assertion on every produced datagram under boundary-seeded state"),
 "C09": ("exploration",
   "Long lossy sessions with small budgets kept within the budget window; after every arrival/drain/tick the accounted memory of every channel (send: public API, receive: hook) is range-checked, unreliable flush and 3 s fragment expiry are checked per message, memory disconnects are violations, the drained quiescent point must show every budget fully returned; plus a heap-trend test with a counting allocator over identical cycles. Both the overflow-checked and the shipped build.",
   "DESIGN.md section 4 / C09",
   "'Within budget' is the window defined in DESIGN C09; the fragment-expiry bound is an upper bound computed from delivered slices; heap trend uses a 32 KB slack.",
   "runtime monitoring: accounting invariants at hooks + quiescent-point conservation + allocator trend"),
 "C08": ("fault_enumeration",
   "Exhaustive small scope (every ordered subset of <= 6/7 packet sequence numbers in three numberings fed to a fresh endpoint: recorded set invariant + emitted ack == fed set) plus sampled lossy sessions where, after every step, the set of messages the sender stopped retransmitting (hook, cross-checked by the public byte accounting) must be a subset of the messages completely delivered to the peer, and every Ack range a subset of the sequences delivered to its emitter.",
   "DESIGN.md section 4 / C08",
   "exhaustive only for the enumerated sub-space; the rest is seeded exploration. Trusted: crate decoder for reading sequence numbers and slices.",
   "runtime monitoring: invariant at hook + release-implies-delivered history check; enumerated arrival orders"),
 "C06": ("exploration",
   "Structure-aware hostile datagram injection (replay, field mutation through the crate's own encoder, built-from-scratch boundary packets, contradicting follow-up slices, truncations, bit flips, raw weird encodings, random bytes) into both roles of a live simulated session in several states, with panic capture, per-call watchdog, status / accounting / heap monitors after every call, periodic full API ticks, and a healthy second connection checked by the C01 oracle. Overflow-checked and shipped builds; thorough adds an AddressSanitizer build.",
   "DESIGN.md section 4 / C06",
   "Inputs are sampled, not enumerated; heap bound has 1 MB slack; ASan only in the thorough tier.",
   "runtime monitoring: hostile-input injection with catch_unwind / watchdog / accounting hooks / counting allocator (+ASan)"),
 "C15": ("exploration",
   "Offline-style shadow table over the decoded output of every get_packets_to_send call in simulated lossy sessions: per item last transmission time and acknowledgement state derived from the Ack packets actually delivered; the three clauses (not early, prompt when due and budget left, never after an effective ack) are asserted on virtual time.",
   "DESIGN.md section 4 / C15",
   "Promptness uses the budget left after the whole call (weakest necessary condition) and only items the hook still lists as unacknowledged; sender clock = simulator clock.",
   "runtime monitoring: trace checker over decoded wire events with a shadow retransmission table"),
 "C16": ("fault_enumeration",
   "Enumerated: all 4096 subsets of a 12-element sequence universe (3 numberings) as ack sets through codec and through a live endpoint (emitted Ack == recorded set == fed set), and every netcode packet kind x sequence-length class x payload length through the crate's codec. Sampled: boundary-valued renet packets of every kind, decode->encode->decode on random / mutated byte strings, sparse ack sets up to 90 ranges, connect tokens with 1..32 mixed addresses through write/read and seal/open, mutated token bytes.",
   "DESIGN.md section 4 / C16",
   "exhaustive only for the two enumerated sub-spaces; values are generated within the limits the library enforces when sending.",
   "runtime monitoring: round-trip oracle (value equality) over enumerated and generated values; ack packet vs hook-recorded set"),
 "C07": ("fault_enumeration",
   "Exhaustive grid (256 prefix bytes x lengths {0..64,1077,1078,1079,1399,1400} x 3 bodies x 7 protocol states, per engine) plus sampled mutations of genuine datagrams of all kinds, re-addressed datagrams, foreign keys / protocol ids, crafted sequences incl. 2^64-1, and corrupted tokens through read -> NetcodeClient::new -> update; every call guarded (panic capture + watchdog); for non-authentic input the observable snapshot before/after must be equal and genuine traffic must still be accepted afterwards. Checked and shipped builds.",
   "DESIGN.md section 4 / C07",
   "exhaustive refers to the grid only; 'not authentic' is by construction; replays of genuine datagrams are only required not to panic here (their effect is C04/C18).",
   "runtime monitoring: enumerated + sampled hostile injection with snapshot-equality oracle and catch_unwind/watchdog"),
 "C17": ("fault_enumeration",
   "Every single-bit flip and every truncation of sample datagrams of every kind in their accepting state, and of token sealed part / bound public fields, must be rejected with the snapshot unchanged; opening under another key / protocol id must fail; an offline nonce table over every datagram emitted in honest multi-client histories (retries, denials, re-challenges, keep-alives, payloads, disconnects, reconnects, fail-over) requires (key, sequence) -> bytes to be a function, likewise token_sequence -> challenge blob.",
   "DESIGN.md section 4 / C17",
   "AEAD unforgeability is assumed; key identity is established by opening datagrams with the minted keys; tokens list one live address (fail-over with the same token to the same server is outside 'one connection attempt').",
   "runtime monitoring: exhaustive bit-flip / truncation tamper oracle + offline nonce-uniqueness checker over the emitted-datagram log"),
 "C19": ("exploration",
   "For every datagram from an address without a completed handshake (server empty / partly filled / full): at most one reply, to the source address, strictly smaller than the input, and none unless the input carries a valid token or valid response according to the harness's own ledger; update_client polled to confirm nothing else leaves.",
   "DESIGN.md section 4 / C19",
   "validity comes from the harness ledger (it minted the tokens and saw the issued challenges).",
   "runtime monitoring: reply-size / destination oracle over generated request and response datagrams"),
 "C20": ("exploration",
   "Real NetcodeServerTransport / NetcodeClientTransport over loopback UDP through a seeded in-path relay (drop, duplicate, delay, replay, corrupt), single-threaded virtual time: lock-step set equality right after every server transport update, event alternation, disconnect propagation (few ticks on a clean relay, by the end of the run otherwise), end-to-end channel oracles, no unsolicited session end in interference-only runs, datagram size <= 1400. Thorough adds an AddressSanitizer build.",
   "DESIGN.md section 4 / C20",
   "single-threaded endpoints; bounds on virtual time; loopback delivery treated as at most one tick late.",
   "runtime monitoring: quiescent-point set equality + event alternation model + end-to-end history oracles over real sockets"),
 "C11": ("exploration",
   "Star topology (2-8 clients, independent fault profiles, joins / leaves, hostile ids, one client with a permanently stalled ordered message) with unicast, broadcast and broadcast_except; payload headers carry the addressee; 'obtained only if addressed, intact, at most once, only under the sender's id' is unconditional, 'exactly once within the bound' holds for undisturbed clients; healthy clients keep their C01/C02 oracles.",
   "DESIGN.md section 4 / C11",
   "all messages >= 24 bytes so the address is in the header; bounded liveness computed from undisturbed clients only.",
   "runtime monitoring: addressed-payload history oracle + per-client channel oracles under independent fault schedules"),
 "C12": ("exploration",
   "Random public-API sequences (add/remove, disconnect, local clients, status setters, send/receive/process incl. hostile bytes, over-budget sends, update) against a reference state machine Absent | Alive | Dead(first reason) per id and per client; after every call: dead stays dead with the same reason, emits / yields / accepts nothing (accepting observed through the read-only hooks), events alternate per id and removals carry the first reason.",
   "DESIGN.md section 4 / C12",
   "'accepts no packets' is observed through hook-visible state (pending acks, receive memory, sent-packet table); panics on hostile bytes are left to C06.",
   "runtime monitoring: lock-step reference state machine over generated API call sequences"),
 "C14": ("exploration",
   "Every get_packets_to_send call of simulated sessions with budgets {0,1,100,1199,1200,1201,2500,60000} and 1-4 channels in all orders is decoded and judged: payload bytes <= budget; a due unacknowledged reliable item may be absent only if the budget left after its channel was served is smaller than its size; an unreliable message is whole or absent, absent only if it did not fit, never sent later.",
   "DESIGN.md section 4 / C14",
   "only necessary conditions independent of the iteration order inside a channel; slices whose acknowledgement state is uncertain are skipped, never judged.",
   "runtime monitoring: per-call budget attribution oracle over decoded packets"),
 "C04": ("fault_enumeration",
   "Ledger of genuine datagrams per (session, direction) and a reference 256-entry sliding window stepped in lock-step; exhaustive: all 7^4 ordered histories over the window-boundary offsets {0,1,255,256,257,511,512} in both directions and two sequence bases; sampled: live two-session runs with replays, bit flips, truncations, rewritten sequence bytes, cross-session / re-addressed / reflected datagrams, foreign key / protocol, sequences up to 2^64-1. A surfaced payload must be an un-surfaced genuine one of that session; a genuine first-time in-window datagram on a connected session must surface. Checked and shipped builds.",
   "DESIGN.md section 4 / C04",
   "AEAD unforgeability assumed; datagrams sealed with the crate's encoder at chosen sequence numbers count as generated by the peer; exhaustive refers to the boundary-history sub-space.",
   "runtime monitoring: history checker against a ledger + reference sliding-window model"),
 "C05": ("exploration",
   "Token ledger + challenge ledger (challenge blobs recovered by opening server replies with the minted keys); every ClientConnected must be justified by a valid unexpired token for this server presented from that address and a response from that address echoing a challenge this server issued for that id; 13 scripted attack classes (expiry instants, field and bit corruption, foreign key / protocol / host list, token replay from a second address, cross-use of challenges, stale and corrupted challenges) plus random operations.",
   "DESIGN.md section 4 / C05",
   "fewer than 2048 tokens per server instance; a response during the second between floor(t)=expire and pending expiry is tolerated (the statement constrains the request time).",
   "runtime monitoring: justification oracle over a request / challenge / response event ledger"),
 "C10": ("exploration",
   "Connection-table reference model fed by ServerResults; after every call ids and addresses are pairwise distinct, connected <= max_clients (limit never lowered), clients_id() equals the model, lookups / user data / payload attribution match the authenticated session, every ClientDisconnected matches one unmatched ClientConnected; full-server refusals must not disturb existing sessions (payload probes both ways).",
   "DESIGN.md section 4 / C10",
   "the session's token is identified by the key that opens the keep-alive returned with ClientConnected.",
   "runtime monitoring: lock-step reference model of the connection table with invariant checks after every call"),
 "C18": ("exploration",
   "Real server + client over an addressed datagram queue with per-datagram fates and virtual clocks; bounded handshake completion after faults stop (B = 4*(250 ms + 2*dt_max) + 1 s), fail-over across silent addresses, timeout of silent peers on both sides at the next update, half-open expiry, survival of live sessions, and twin runs (with / without injected forged or replayed datagrams) whose disconnect instants must coincide; limits raised and lowered at run time.",
   "DESIGN.md section 4 / C18",
   "bounded liveness only; 'authentic' for must-disconnect counts any first delivery of a genuine datagram (lenient), for must-not-disconnect only keep-alive / payload (strict).",
   "runtime monitoring: deadline monitors on virtual time + twin-run comparison"),
}

NOT_YET = {}

def main():
    props = [json.loads(l) for l in open('/verif/properties.jsonl')]
    checks = []
    na = []
    for p in props:
        pid = p['id']
        if pid in CHECKS:
            cat, text, ref, note, tech = CHECKS[pid]
            checks.append({
                "property_id": pid,
                "quick_cmd": f"./check {pid} quick",
                "thorough_cmd": f"./check {pid} thorough",
                "evidence_file": f"/verif/evidence/{pid}.json",
                "replay_cmd_template": "./check --replay {path}",
                "engine": "rv",
                "level_claimed": {"category": cat, "text": text, "design_ref": ref},
                "level_note": note,
                "technique": tech,
            })
        else:
            na.append({"property_id": pid, "reason": NOT_YET.get(pid, "check not built yet in this snapshot (work in progress; the technique applies, see DESIGN.md section 4)")})
    m = {
        "version": 1,
        "setup_cmd": "./check --build e1 e2",
        "hooks": {
            "guard": "cargo feature verif_hooks (crates renet and renetcode), off by default",
            "enable": "the harness crate /verif/harness path-depends on /repo/renet and /repo/renetcode with features=[\"verif_hooks\"]",
            "baseline_off_cmd": "cd /repo && cargo test --workspace --no-fail-fast --offline",
            "source_commits": HOOK_COMMITS,
            "add_only": True,
        },
        "engines": [
            {"name": "rv", "path": "/verif/harness", "serves_properties": sorted(CHECKS.keys()),
             "kind_free_text": "Rust harness linking the real crates: simulated links / hostile injectors / UDP relay, boundary event log, online oracles; build flavours e1 (overflow-checks+debug-assertions), e2 (shipped release semantics), e3 (nightly AddressSanitizer), e4 (Miri)"},
        ],
        "checks": checks,
        "not_applicable": na,
        "notes": "Exit codes of every command: 0 held on everything explored, 1 VIOLATION (witness under /verif/replays), 3 INCONCLUSIVE (coverage gate not met / harness error; never reported as held). VERIF_SEED selects the seed, VERIF_SCALE (percent) scales run counts.",
    }
    json.dump(m, open('/verif/MANIFEST.json', 'w'), indent=1)
    print("MANIFEST.json written:", len(checks), "checks,", len(na), "not_applicable")

main()
